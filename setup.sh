#!/bin/bash
# Run once after a fresh restore, offline: builds the harness from files on
# disk and checks that the generated schema module is current.
set -e
cd "$(dirname "$0")"
export GOFLAGS=-mod=mod GOPROXY=off GOSUMDB=off GOTOOLCHAIN=local CGO_ENABLED=0
cp /repo/go.sum harness/go.sum
(cd harness && go build -tags verif -o vh .)
harness/vh schema > .schema.tmp
if ! cmp -s .schema.tmp spec/AstSchema.tla; then
  echo "spec/AstSchema.tla is stale (go/ast changed?): regenerate with 'harness/vh schema'" >&2
  rm -f .schema.tmp
  exit 1
fi
rm -f .schema.tmp
mkdir -p evidence replays .work
(cd spec && tla-sany Pattern.tla > /dev/null)
echo "setup ok"
