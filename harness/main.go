package main

import (
	"flag"
	"fmt"
	"os"
)

func usage() {
	fmt.Fprintln(os.Stderr, "usage: vh <schema|rewrite|textvec> [flags]")
	os.Exit(2)
}

func main() {
	if len(os.Args) < 2 {
		usage()
	}
	cmd, args := os.Args[1], os.Args[2:]
	var err error
	switch cmd {
	case "schema":
		writeSchema(os.Stdout)
	case "rewrite":
		fs := flag.NewFlagSet(cmd, flag.ExitOnError)
		in := fs.String("in", "", "vectors ndjson")
		out := fs.String("out", "", "cases ndjson")
		subj := fs.String("subjects", "", "subjects ndjson (terms)")
		fs.Parse(args)
		err = cmdRewrite(*in, *out, *subj)
	case "textvec":
		fs := flag.NewFlagSet(cmd, flag.ExitOnError)
		in := fs.String("in", "", "text vectors json")
		out := fs.String("out", "", "vectors ndjson")
		fs.Parse(args)
		err = cmdTextVec(*in, *out)
	default:
		usage()
	}
	if err != nil {
		fmt.Fprintln(os.Stderr, "vh:", err)
		os.Exit(2)
	}
}
