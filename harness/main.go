package main

import (
	"flag"
	"fmt"
	"os"
)

func usage() {
	fmt.Fprintln(os.Stderr, "usage: vh <schema|rewrite|textvec|cli|api|sched|stress> [flags]")
	os.Exit(2)
}

func main() {
	if len(os.Args) < 2 {
		usage()
	}
	cmd, args := os.Args[1], os.Args[2:]
	var err error
	switch cmd {
	case "schema":
		writeSchema(os.Stdout)
	case "rewrite":
		fs := flag.NewFlagSet(cmd, flag.ExitOnError)
		in := fs.String("in", "", "vectors ndjson")
		out := fs.String("out", "", "cases ndjson")
		subj := fs.String("subjects", "", "subjects ndjson (terms)")
		fs.Parse(args)
		err = cmdRewrite(*in, *out, *subj)
	case "textvec":
		fs := flag.NewFlagSet(cmd, flag.ExitOnError)
		in := fs.String("in", "", "text vectors json")
		out := fs.String("out", "", "vectors ndjson")
		fs.Parse(args)
		err = cmdTextVec(*in, *out)
	case "cli":
		fs := flag.NewFlagSet(cmd, flag.ExitOnError)
		in := fs.String("in", "", "scenarios ndjson")
		out := fs.String("out", "", "runs ndjson")
		bin := fs.String("bin", "", "gopatch binary")
		work := fs.String("work", "", "scratch directory")
		par := fs.Int("j", 8, "parallelism")
		fs.Parse(args)
		err = cmdCli(*in, *out, *bin, *work, *par)
	case "api":
		fs := flag.NewFlagSet(cmd, flag.ExitOnError)
		in := fs.String("in", "", "requests ndjson")
		out := fs.String("out", "", "results ndjson")
		fs.Parse(args)
		err = cmdAPI(*in, *out)
	case "sched", "stress":
		fs := flag.NewFlagSet(cmd, flag.ExitOnError)
		in := fs.String("in", "", "requests ndjson")
		out := fs.String("out", "", "results ndjson")
		fs.Parse(args)
		if cmd == "sched" {
			err = cmdSched(*in, *out)
		} else {
			err = cmdStress(*in, *out)
		}
	default:
		usage()
	}
	if err != nil {
		fmt.Fprintln(os.Stderr, "vh:", err)
		os.Exit(2)
	}
}
