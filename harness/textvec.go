package main

// vh textvec: hand-written vectors in text form -> abstract vectors.

import (
	"bufio"
	"encoding/json"
	"fmt"
	"os"
)

type TextVector struct {
	ID     string     `json:"id"`
	Prop   []string   `json:"prop"`
	Class  string     `json:"class"`
	Metas  []MetaDecl `json:"metas"`
	Minus  string     `json:"minus"`
	Plus   string     `json:"plus"`
	Src    string     `json:"src"`
	File   string     `json:"file"` // alternative to src: path of a corpus file
	Layout string     `json:"layout"`
	Note   string     `json:"note"`
	Header string     `json:"header"`
	Guard  string     `json:"guard"` // "fail": the header's package / import guard does not hold for the file
}

func (tv *TextVector) Vector() (*Vector, error) {
	pat, err := PatternFromText(tv.Class, tv.Minus, tv.Metas)
	if err != nil {
		return nil, fmt.Errorf("%s: minus: %w", tv.ID, err)
	}
	plus, err := PatternFromText(tv.Class, tv.Plus, tv.Metas)
	if err != nil {
		return nil, fmt.Errorf("%s: plus: %w", tv.ID, err)
	}
	src := tv.Src
	if tv.File != "" {
		b, err := os.ReadFile(tv.File)
		if err != nil {
			return nil, err
		}
		src = string(b)
	}
	return &Vector{ID: tv.ID, Prop: tv.Prop, Class: tv.Class, Metas: tv.Metas, Pat: pat, Plus: plus,
		Src: src, Layout: tv.Layout, Note: tv.Note, Header: tv.Header, Guard: tv.Guard}, nil
}

func cmdTextVec(in, out string) error {
	b, err := os.ReadFile(in)
	if err != nil {
		return err
	}
	var tvs []TextVector
	if err := json.Unmarshal(b, &tvs); err != nil {
		return err
	}
	fo, err := os.Create(out)
	if err != nil {
		return err
	}
	defer fo.Close()
	w := bufio.NewWriter(fo)
	defer w.Flush()
	enc := json.NewEncoder(w)
	enc.SetEscapeHTML(false)
	for i := range tvs {
		v, err := tvs[i].Vector()
		if err != nil {
			return err
		}
		if err := enc.Encode(v); err != nil {
			return err
		}
	}
	return nil
}
