package main

// vh api: library-level requests (patch.Parse + File.Apply, unified diff
// application) in batch form.

import (
	"bufio"
	"encoding/json"
	"fmt"
	"go/ast"
	"go/parser"
	"go/token"
	"os"
	"regexp"
	"strconv"
	"strings"
	"time"

	"github.com/uber-go/gopatch/patch"
)

type APIReq struct {
	ID    string `json:"id"`
	Op    string `json:"op"`    // apply | applydiff
	Patch string `json:"patch"` // patch text (apply)
	Name  string `json:"name"`
	Src   string `json:"src"`
	Diff  string `json:"diff"` // unified diff text (applydiff)
	// watchdog for apply / parsepatch / augment (0 = default); a call that does not return in time is reported as "timeout"
	TimeoutMs int `json:"timeout_ms,omitempty"`
	// apply: sources that the same parsed patch is applied to before Src (their results are dropped), and the
	// number of further applications of Src, whose results must all be the same bytes ("unstable:" otherwise)
	Before []string `json:"before,omitempty"`
	Repeat int      `json:"repeat,omitempty"`
}

type APIRes struct {
	ID  string `json:"id"`
	Out string `json:"out"`
	Err string `json:"err"`
}

var hunkRe = regexp.MustCompile(`^@@ -(\d+)(?:,(\d+))? \+(\d+)(?:,(\d+))? @@`)

// ApplyUnifiedDiff is a strict applier: every context and '-' line must match
// the original exactly (including a trailing \r), hunks must be in order.
func ApplyUnifiedDiff(orig, diff string) (string, error) {
	if diff == "" {
		return orig, nil
	}
	olines := strings.SplitAfter(orig, "\n")
	if n := len(olines); n > 0 && olines[n-1] == "" {
		olines = olines[:n-1]
	}
	dl := strings.SplitAfter(diff, "\n")
	var out strings.Builder
	pos := 0 // index into olines
	i := 0
	for i < len(dl) && (strings.HasPrefix(dl[i], "--- ") || strings.HasPrefix(dl[i], "+++ ")) {
		i++
	}
	for i < len(dl) {
		if dl[i] == "" {
			i++
			continue
		}
		m := hunkRe.FindStringSubmatch(dl[i])
		if m == nil {
			return "", fmt.Errorf("diff line %d: expected hunk header, got %q", i+1, dl[i])
		}
		start, _ := strconv.Atoi(m[1])
		cnt := 1
		if m[2] != "" {
			cnt, _ = strconv.Atoi(m[2])
		}
		if cnt == 0 {
			start++ // "-N,0" means after line N
		}
		if start-1 < pos {
			return "", fmt.Errorf("hunk at %d overlaps", start)
		}
		for pos < start-1 {
			if pos >= len(olines) {
				return "", fmt.Errorf("hunk start %d beyond end of file", start)
			}
			out.WriteString(olines[pos])
			pos++
		}
		i++
		for i < len(dl) && dl[i] != "" && !strings.HasPrefix(dl[i], "@@ ") {
			line := dl[i]
			if strings.HasPrefix(line, `\ No newline at end of file`) {
				// the previous emitted/consumed line has no newline
				s := out.String()
				if strings.HasSuffix(s, "\n") && i > 0 && (dl[i-1][0] == '+' || dl[i-1][0] == ' ') {
					out.Reset()
					out.WriteString(strings.TrimSuffix(s, "\n"))
				}
				i++
				continue
			}
			body := line[1:]
			switch line[0] {
			case ' ':
				if pos >= len(olines) || strings.TrimSuffix(olines[pos], "\n") != strings.TrimSuffix(body, "\n") {
					return "", fmt.Errorf("context mismatch at original line %d", pos+1)
				}
				out.WriteString(olines[pos])
				pos++
			case '-':
				if pos >= len(olines) || strings.TrimSuffix(olines[pos], "\n") != strings.TrimSuffix(body, "\n") {
					return "", fmt.Errorf("removed line mismatch at original line %d", pos+1)
				}
				pos++
			case '+':
				out.WriteString(body)
			default:
				return "", fmt.Errorf("diff line %d: unexpected %q", i+1, line)
			}
			i++
		}
	}
	for pos < len(olines) {
		out.WriteString(olines[pos])
		pos++
	}
	return out.String(), nil
}

func cmdAPI(in, out string) error {
	fi, err := os.Open(in)
	if err != nil {
		return err
	}
	defer fi.Close()
	fo, err := os.Create(out)
	if err != nil {
		return err
	}
	defer fo.Close()
	w := bufio.NewWriter(fo)
	defer w.Flush()
	enc := json.NewEncoder(w)
	enc.SetEscapeHTML(false)
	sc := bufio.NewScanner(fi)
	sc.Buffer(make([]byte, 1<<20), 1<<30)
	for sc.Scan() {
		if strings.TrimSpace(sc.Text()) == "" {
			continue
		}
		var r APIReq
		if err := json.Unmarshal(sc.Bytes(), &r); err != nil {
			return err
		}
		res := APIRes{ID: r.ID}
		wd := func(def time.Duration) time.Duration {
			if r.TimeoutMs > 0 {
				return time.Duration(r.TimeoutMs) * time.Millisecond
			}
			return def
		}
		switch r.Op {
		case "apply":
			a := applyGuarded(r.Patch, r.Name, []byte(r.Src), wd(10*time.Second))
			if len(r.Before) > 0 || r.Repeat > 0 {
				a = applySeq(r.Patch, r.Name, r.Before, []byte(r.Src), r.Repeat, wd(20*time.Second))
			}
			res.Out, res.Err = string(a.out), a.err
		case "applydiff":
			o, err := ApplyUnifiedDiff(r.Src, r.Diff)
			res.Out = o
			if err != nil {
				res.Err = err.Error()
			}
		case "parsepatch":
			// patch.Parse only (under recover and a watchdog); Name is the patch file name
			ch := make(chan string, 1)
			go func() {
				defer func() {
					if x := recover(); x != nil {
						ch <- fmt.Sprintf("panic:%v", x)
					}
				}()
				if _, err := patch.Parse(r.Name, []byte(r.Patch)); err != nil {
					ch <- err.Error()
				} else {
					ch <- ""
				}
			}()
			select {
			case e := <-ch:
				res.Err = e
			case <-time.After(wd(10 * time.Second)):
				res.Err = "timeout"
			}
		case "augment":
			// the pgo augmenter alone (Src = one side of a patch), under recover and a watchdog
			type augRes struct {
				kinds []string
				err   string
			}
			ch := make(chan augRes, 1)
			go func() {
				defer func() {
					if x := recover(); x != nil {
						ch <- augRes{err: fmt.Sprintf("panic:%v", x)}
					}
				}()
				_, kinds, err := patch.VerifAugment([]byte(r.Src))
				if err != nil {
					ch <- augRes{kinds: kinds, err: "error:" + err.Error()}
				} else {
					ch <- augRes{kinds: kinds}
				}
			}()
			select {
			case a := <-ch:
				b, _ := json.Marshal(a.kinds)
				res.Out, res.Err = string(b), a.err
			case <-time.After(wd(5 * time.Second)):
				res.Err = "timeout"
			}
		case "split":
			chs, err := patch.VerifSplit(r.Name, []byte(r.Patch))
			if err != nil {
				res.Err = err.Error()
			}
			b, _ := json.Marshal(chs)
			res.Out = string(b)
		case "alpha":
			f, err := parser.ParseFile(token.NewFileSet(), "x.go", r.Src, parser.ParseComments)
			if err != nil {
				res.Err = err.Error()
			} else {
				b, _ := json.Marshal(AlphaWith(f, AlphaOpts{KeepImports: true}))
				res.Out = string(b)
			}
		case "histobs":
			// package name and the called function names in source order
			f, err := parser.ParseFile(token.NewFileSet(), "x.go", r.Src, parser.ParseComments)
			if err != nil {
				res.Err = err.Error()
				break
			}
			type call struct {
				F    string `json:"f"`
				Args []int  `json:"args"` // integer literal arguments (others are left out)
			}
			calls := []call{}
			ast.Inspect(f, func(n ast.Node) bool {
				if c, ok := n.(*ast.CallExpr); ok {
					if id, ok := c.Fun.(*ast.Ident); ok {
						cl := call{F: id.Name, Args: []int{}}
						for _, a := range c.Args {
							if bl, ok := a.(*ast.BasicLit); ok && bl.Kind == token.INT {
								v, _ := strconv.Atoi(bl.Value)
								cl.Args = append(cl.Args, v)
							} else if id, ok := a.(*ast.Ident); ok && id.Name == "x" {
								cl.Args = append(cl.Args, 0) // the identifier x
							}
						}
						calls = append(calls, cl)
					}
				}
				return true
			})
			b, _ := json.Marshal(map[string]any{"pkg": f.Name.Name, "calls": calls})
			res.Out = string(b)
		case "histobs2", "histobs2d":
			// package name and, per statement, the call terms of the code: a term is a call of a function that is
			// not one of the transparent wrappers, with its arguments as terms (integer literals, identifiers, calls)
			f, err := parser.ParseFile(token.NewFileSet(), "x.go", r.Src, parser.ParseComments)
			if err != nil {
				res.Err = err.Error()
				break
			}
			body := histTerms(f)
			if r.Op == "histobs2d" {
				// ... preceded by one leaf per function declaration: name, number of parameters and of results
				decls := []*HistTerm{}
				for _, im := range f.Imports {
					nm := ""
					if im.Name != nil {
						nm = im.Name.Name + " "
					}
					decls = append(decls, &HistTerm{F: "id:import " + nm + im.Path.Value, Args: []*HistTerm{}})
				}
				for _, d := range f.Decls {
					if fd, ok := d.(*ast.FuncDecl); ok {
						np, nr := fd.Type.Params.NumFields(), 0
						if fd.Type.Results != nil {
							nr = fd.Type.Results.NumFields()
						}
						decls = append(decls, &HistTerm{F: fmt.Sprintf("id:func %s/%d/%d", fd.Name.Name, np, nr), Args: []*HistTerm{}})
					}
				}
				body = append(decls, body...)
			}
			b, _ := json.Marshal(map[string]any{"pkg": f.Name.Name, "body": body})
			res.Out = string(b)
		case "cmtobs":
			o, err := observeComments(r.Src)
			if err != nil {
				res.Err = err.Error()
			} else {
				b, _ := json.Marshal(o)
				res.Out = string(b)
			}
		case "impobs":
			// independent observation of a Go file: its imports, the names used as
			// selector bases that do not resolve to a local declaration, and the
			// names of the functions that are called
			o, err := observeImports(r.Src)
			if err != nil {
				res.Err = err.Error()
			} else {
				b, _ := json.Marshal(o)
				res.Out = string(b)
			}
		case "parses":
			if _, err := parser.ParseFile(token.NewFileSet(), "x.go", r.Src, parser.ParseComments); err != nil {
				res.Err = err.Error()
			}
		default:
			return fmt.Errorf("unknown op %q", r.Op)
		}
		if err := enc.Encode(res); err != nil {
			return err
		}
	}
	return sc.Err()
}

type impSpec struct {
	Name string `json:"name"`
	Path string `json:"path"`
}

type impObs struct {
	Imports []impSpec `json:"imports"`
	Uses    []string  `json:"uses"`
	Calls   []string  `json:"calls"`
}

func observeImports(src string) (*impObs, error) {
	f, err := parser.ParseFile(token.NewFileSet(), "x.go", src, parser.ParseComments)
	if err != nil {
		return nil, err
	}
	o := &impObs{Imports: []impSpec{}, Uses: []string{}, Calls: []string{}}
	for _, d := range f.Decls {
		g, ok := d.(*ast.GenDecl)
		if !ok || g.Tok != token.IMPORT {
			continue
		}
		for _, s := range g.Specs {
			is := s.(*ast.ImportSpec)
			p, _ := strconv.Unquote(is.Path.Value)
			n := ""
			if is.Name != nil {
				n = is.Name.Name
			}
			o.Imports = append(o.Imports, impSpec{Name: n, Path: p})
		}
	}
	seenU, seenC := map[string]bool{}, map[string]bool{}
	ast.Inspect(f, func(n ast.Node) bool {
		switch x := n.(type) {
		case *ast.SelectorExpr:
			if id, ok := x.X.(*ast.Ident); ok && id.Obj == nil && !seenU[id.Name] {
				seenU[id.Name] = true
				o.Uses = append(o.Uses, id.Name)
			}
		case *ast.CallExpr:
			name := ""
			switch fn := x.Fun.(type) {
			case *ast.Ident:
				name = fn.Name
			case *ast.SelectorExpr:
				if id, ok := fn.X.(*ast.Ident); ok {
					name = id.Name + "." + fn.Sel.Name
				}
			}
			if name != "" && !seenC[name] {
				seenC[name] = true
				o.Calls = append(o.Calls, name)
			}
		}
		return true
	})
	return o, nil
}


// HistTerm mirrors the term records of spec/History.tla.
type HistTerm struct {
	F    string      `json:"f"`
	N    int         `json:"n"`
	Args []*HistTerm `json:"args"`
}

var histTransparent = map[string]bool{"wrap": true, "append": true, "first": true, "last": true, "other": true,
	"run": true, "run2": true, "use": true, "keep": true}

func histTermOf(e ast.Expr) *HistTerm {
	switch x := e.(type) {
	case *ast.BasicLit:
		if x.Kind == token.INT {
			v, _ := strconv.Atoi(x.Value)
			return &HistTerm{F: "lit", N: v, Args: []*HistTerm{}}
		}
		return &HistTerm{F: "id:" + x.Value, Args: []*HistTerm{}}
	case *ast.Ident:
		if x.Name == "x" {
			return &HistTerm{F: "lit", N: 0, Args: []*HistTerm{}}
		}
		return &HistTerm{F: "id:" + x.Name, Args: []*HistTerm{}}
	case *ast.ParenExpr:
		return histTermOf(x.X)
	case *ast.CallExpr:
		name := "?"
		if id, ok := x.Fun.(*ast.Ident); ok {
			name = id.Name
		}
		t := &HistTerm{F: name, Args: []*HistTerm{}}
		for _, a := range x.Args {
			t.Args = append(t.Args, histTermOf(a))
		}
		return t
	}
	return &HistTerm{F: "id:?", Args: []*HistTerm{}}
}

// histTerms lists the maximal non-transparent calls of the file in source order.
func histTerms(f *ast.File) []*HistTerm {
	out := []*HistTerm{}
	ast.Inspect(f, func(n ast.Node) bool {
		c, ok := n.(*ast.CallExpr)
		if !ok {
			return true
		}
		if id, ok := c.Fun.(*ast.Ident); ok && !histTransparent[id.Name] {
			out = append(out, histTermOf(c))
			return false
		}
		return true
	})
	return out
}
