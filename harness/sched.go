package main

// vh sched: replay interleavings of concurrent File.Apply calls on one parsed
// patch.  Every call runs on its own goroutine; the gates of patch/gopatch.go
// (build tag verif) park it, and the controller releases exactly one parked
// call per step in the order TLC enumerated (spec/Concurrent.tla).
//
// vh stress: free-running goroutines (no gates) for the race detector.

import (
	"bufio"
	"bytes"
	"encoding/json"
	"fmt"
	"os"
	"runtime"
	"strconv"
	"strings"
	"sync"
	"time"

	"github.com/uber-go/gopatch/patch"
)

type SchedReq struct {
	ID    string   `json:"id"`
	Patch string   `json:"patch"`
	Srcs  []string `json:"srcs"`
	Order []int    `json:"order"` // 1-based call numbers, one per step
}

type Passage struct {
	C int    `json:"c"`
	P string `json:"p"`
}

type CallRes struct {
	Out string `json:"out"`
	Err string `json:"err"`
}

type SchedRes struct {
	ID       string    `json:"id"`
	Passages []Passage `json:"passages"`
	Extra    []Passage `json:"extra"`  // passages after the schedule was exhausted (model drift)
	Hashes   []string  `json:"hashes"` // program hash before the first step and after every step
	Results  []CallRes `json:"results"`
	Err      string    `json:"err"` // infrastructure problem (timeout, inconsistent schedule)
}

func goid() int {
	var buf [64]byte
	n := runtime.Stack(buf[:], false)
	f := strings.Fields(string(buf[:n]))
	if len(f) < 2 {
		return -1
	}
	id, _ := strconv.Atoi(f[1])
	return id
}

type arrival struct {
	c     int
	point string // "" = finished
}

func runSchedule(req *SchedReq) *SchedRes {
	res := &SchedRes{ID: req.ID, Passages: []Passage{}, Extra: []Passage{}, Hashes: []string{}}
	pf, err := patch.Parse("s.patch", []byte(req.Patch))
	if err != nil {
		res.Err = "parse: " + err.Error()
		return res
	}
	n := len(req.Srcs)
	res.Results = make([]CallRes, n)
	var mu sync.Mutex
	owner := map[int]int{} // goroutine id -> call
	arrive := make(chan arrival, 4*n)
	release := make([]chan struct{}, n)
	for i := range release {
		release[i] = make(chan struct{})
	}
	patch.VerifSetGate(func(point string) {
		mu.Lock()
		c, ok := owner[goid()]
		mu.Unlock()
		if !ok {
			return
		}
		arrive <- arrival{c, point}
		<-release[c]
	})
	defer patch.VerifSetGate(nil)
	for i := 0; i < n; i++ {
		i := i
		go func() {
			mu.Lock()
			owner[goid()] = i
			mu.Unlock()
			defer func() {
				if x := recover(); x != nil {
					res.Results[i] = CallRes{Err: fmt.Sprintf("panic:%v", x)}
				}
				arrive <- arrival{i, ""}
			}()
			out, err := pf.Apply(fmt.Sprintf("f%d.go", i+1), []byte(req.Srcs[i]))
			if err != nil {
				res.Results[i] = CallRes{Err: err.Error()}
			} else {
				res.Results[i] = CallRes{Out: string(out)}
			}
		}()
	}
	parked := make([]string, n)
	finished := make([]bool, n)
	waitFor := func(want func() bool) bool {
		for !want() {
			select {
			case a := <-arrive:
				if a.point == "" {
					finished[a.c] = true
					parked[a.c] = ""
				} else {
					parked[a.c] = a.point
				}
			case <-time.After(10 * time.Second):
				return false
			}
		}
		return true
	}
	settled := func(c int) func() bool { return func() bool { return finished[c] || parked[c] != "" } }
	// every call parks at its first gate
	for c := 0; c < n; c++ {
		if !waitFor(settled(c)) {
			res.Err = "timeout waiting for the first gate"
			return res
		}
	}
	res.Hashes = append(res.Hashes, patch.VerifProgramHash(pf))
	for _, c1 := range req.Order {
		c := c1 - 1
		if c < 0 || c >= n || finished[c] || parked[c] == "" {
			res.Err = fmt.Sprintf("schedule releases call %d which is not parked", c1)
			break
		}
		res.Passages = append(res.Passages, Passage{C: c1, P: parked[c]})
		parked[c] = ""
		release[c] <- struct{}{}
		if !waitFor(settled(c)) {
			res.Err = fmt.Sprintf("timeout after releasing call %d", c1)
			return res
		}
		res.Hashes = append(res.Hashes, patch.VerifProgramHash(pf))
	}
	// drain: calls that still have gates to pass (the model predicted fewer points)
	for {
		prog := false
		for c := 0; c < n; c++ {
			if !finished[c] && parked[c] != "" {
				res.Extra = append(res.Extra, Passage{C: c + 1, P: parked[c]})
				parked[c] = ""
				release[c] <- struct{}{}
				if !waitFor(settled(c)) {
					res.Err = "timeout while draining"
					return res
				}
				prog = true
			}
		}
		if !prog {
			break
		}
	}
	return res
}

func cmdSched(in, out string) error {
	fi, err := os.Open(in)
	if err != nil {
		return err
	}
	defer fi.Close()
	fo, err := os.Create(out)
	if err != nil {
		return err
	}
	defer fo.Close()
	w := bufio.NewWriter(fo)
	defer w.Flush()
	enc := json.NewEncoder(w)
	enc.SetEscapeHTML(false)
	sc := bufio.NewScanner(fi)
	sc.Buffer(make([]byte, 1<<20), 1<<30)
	for sc.Scan() {
		if len(bytes.TrimSpace(sc.Bytes())) == 0 {
			continue
		}
		var r SchedReq
		if err := json.Unmarshal(sc.Bytes(), &r); err != nil {
			return err
		}
		if err := enc.Encode(runSchedule(&r)); err != nil {
			return err
		}
	}
	return sc.Err()
}

// ---------------------------------------------------------------- stress --

type StressReq struct {
	ID         string   `json:"id"`
	Patch      string   `json:"patch"`
	Srcs       []string `json:"srcs"`
	Goroutines int      `json:"goroutines"`
	Rounds     int      `json:"rounds"`
}

type StressRes struct {
	ID         string    `json:"id"`
	Solo       []CallRes `json:"solo"`
	Calls      int       `json:"calls"`
	Mismatches []string  `json:"mismatches"`
	HashBefore string    `json:"hash_before"`
	HashAfter  string    `json:"hash_after"`
	Err        string    `json:"err"`
}

func apply1(pf *patch.File, name, src string) (r CallRes) {
	defer func() {
		if x := recover(); x != nil {
			r = CallRes{Err: fmt.Sprintf("panic:%v", x)}
		}
	}()
	out, err := pf.Apply(name, []byte(src))
	if err != nil {
		return CallRes{Err: err.Error()}
	}
	return CallRes{Out: string(out)}
}

func runStress(req *StressReq) *StressRes {
	res := &StressRes{ID: req.ID, Mismatches: []string{}}
	// solo results come from a separately parsed patch, one call each
	for i, s := range req.Srcs {
		pf, err := patch.Parse("s.patch", []byte(req.Patch))
		if err != nil {
			res.Err = "parse: " + err.Error()
			return res
		}
		res.Solo = append(res.Solo, apply1(pf, fmt.Sprintf("f%d.go", i+1), s))
	}
	pf, err := patch.Parse("s.patch", []byte(req.Patch))
	if err != nil {
		res.Err = "parse: " + err.Error()
		return res
	}
	res.HashBefore = patch.VerifProgramHash(pf)
	var wg sync.WaitGroup
	var mu sync.Mutex
	for g := 0; g < req.Goroutines; g++ {
		g := g
		wg.Add(1)
		go func() {
			defer wg.Done()
			for r := 0; r < req.Rounds; r++ {
				i := (g + r) % len(req.Srcs)
				got := apply1(pf, fmt.Sprintf("f%d.go", i+1), req.Srcs[i])
				mu.Lock()
				res.Calls++
				if got != res.Solo[i] && len(res.Mismatches) < 20 {
					res.Mismatches = append(res.Mismatches, fmt.Sprintf("goroutine %d round %d source %d: got %q / %q, alone %q / %q",
						g, r, i+1, got.Out, got.Err, res.Solo[i].Out, res.Solo[i].Err))
				}
				mu.Unlock()
			}
		}()
	}
	wg.Wait()
	res.HashAfter = patch.VerifProgramHash(pf)
	return res
}

func cmdStress(in, out string) error {
	b, err := os.ReadFile(in)
	if err != nil {
		return err
	}
	fo, err := os.Create(out)
	if err != nil {
		return err
	}
	defer fo.Close()
	enc := json.NewEncoder(fo)
	enc.SetEscapeHTML(false)
	for _, line := range bytes.Split(b, []byte("\n")) {
		if len(bytes.TrimSpace(line)) == 0 {
			continue
		}
		var r StressReq
		if err := json.Unmarshal(line, &r); err != nil {
			return err
		}
		if err := enc.Encode(runStress(&r)); err != nil {
			return err
		}
	}
	return nil
}
