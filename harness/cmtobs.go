package main

// Observer for C17: which comments belong to which top-level declaration.

import (
	"crypto/sha1"
	"encoding/hex"
	"encoding/json"
	"go/ast"
	"go/format"
	"go/parser"
	"go/token"
)

type declObs struct {
	Key      string   `json:"key"`  // hash of the declaration's syntax (comments, positions and layout ignored)
	Name     string   `json:"name"` // for messages only
	Comments []string `json:"comments"`
}

type cmtObs struct {
	Header   []string `json:"header"`   // comments before the package clause incl. the package comment
	PkgTrail []string `json:"pkgtrail"` // comment trailing the package clause (same line)
	Decls  []declObs `json:"decls"`
	All    []string  `json:"all"`
}

// observeComments parses gofmt(src) and lists, per top-level declaration, its
// doc comment, the comments inside it and the comment trailing it (on the
// line where it ends), in source order.
func observeComments(src string) (*cmtObs, error) {
	if b, err := format.Source([]byte(src)); err == nil {
		src = string(b)
	}
	fset := token.NewFileSet()
	f, err := parser.ParseFile(fset, "x.go", src, parser.ParseComments)
	if err != nil {
		return nil, err
	}
	o := &cmtObs{Header: []string{}, PkgTrail: []string{}, Decls: []declObs{}, All: []string{}}
	line := func(p token.Pos) int { return fset.Position(p).Line }
	var all []*ast.Comment
	for _, cg := range f.Comments {
		for _, c := range cg.List {
			all = append(all, c)
			o.All = append(o.All, c.Text)
		}
	}
	pkgLine := line(f.Name.End())
	for _, c := range all {
		if c.End() <= f.Package {
			o.Header = append(o.Header, c.Text)
		} else if c.Pos() > f.Name.End() && line(c.Pos()) == pkgLine {
			o.PkgTrail = append(o.PkgTrail, c.Text)
		}
	}
	for _, d := range f.Decls {
		do := declObs{Comments: []string{}}
		b, _ := json.Marshal(Alpha(d))
		h := sha1.Sum(b)
		do.Key = hex.EncodeToString(h[:8])
		var doc *ast.CommentGroup
		switch x := d.(type) {
		case *ast.FuncDecl:
			doc, do.Name = x.Doc, "func "+x.Name.Name
		case *ast.GenDecl:
			doc, do.Name = x.Doc, x.Tok.String()
			if len(x.Specs) > 0 {
				switch s := x.Specs[0].(type) {
				case *ast.ValueSpec:
					do.Name += " " + s.Names[0].Name
				case *ast.TypeSpec:
					do.Name += " " + s.Name.Name
				case *ast.ImportSpec:
					do.Name += " " + s.Path.Value
				}
			}
		}
		endLine := line(d.End())
		for _, c := range all {
			switch {
			case doc != nil && c.Pos() >= doc.Pos() && c.End() <= doc.End():
				do.Comments = append(do.Comments, c.Text)
			case c.Pos() >= d.Pos() && c.End() <= d.End():
				do.Comments = append(do.Comments, c.Text)
			case c.Pos() >= d.End() && line(c.Pos()) == endLine:
				do.Comments = append(do.Comments, c.Text)
			}
		}
		o.Decls = append(o.Decls, do)
	}
	return o, nil
}
