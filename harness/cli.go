package main

// vh cli: materialise scenarios on disk, run the real gopatch binary
// (optionally under strace, with fault injection or a file-size limit) and
// record everything observable: exit status, stdout, stderr, the tree before
// and after, and the file-mutating syscalls.

import (
	"bufio"
	"bytes"
	"context"
	"crypto/sha256"
	"encoding/hex"
	"encoding/json"
	"fmt"
	"os"
	"os/exec"
	"path/filepath"
	"regexp"
	"sort"
	"strings"
	"sync"
	"syscall"
	"time"
)

type ScFile struct {
	Path    string `json:"path"`
	Content string `json:"content"`
	Mode    uint32 `json:"mode,omitempty"`
}

type ScLink struct {
	Path   string `json:"path"`
	Target string `json:"target"`
}

type Scenario struct {
	ID       string   `json:"id"`
	Files    []ScFile `json:"files"`
	Dirs     []string `json:"dirs"`
	Symlinks []ScLink `json:"symlinks"`
	PwdLogical bool   `json:"pwd_logical,omitempty"` // PWD names the working directory as Cwd spells it (through its symbolic links), as after a shell's cd
	Hardlinks []ScLink `json:"hardlinks,omitempty"` // further names (path) of a regular file of Files (target, relative to the root)
	Args     []string `json:"args"`  // {ROOT} is replaced by the scenario root
	Stdin    string   `json:"stdin"` //
	Cwd      string   `json:"cwd"`   // relative to root
	Strace   bool     `json:"strace"`
	Inject   string   `json:"inject,omitempty"`      // e.g. write:error=ENOSPC:when=1
	TracePath string  `json:"trace_path,omitempty"`  // -P <root>/<path>
	Fsize    int64    `json:"fsize,omitempty"`       // prlimit --fsize (bytes); -1 = none
	UseFsize bool     `json:"use_fsize,omitempty"`
	StdoutFull bool   `json:"stdout_full,omitempty"` // standard output is /dev/full: every write to it fails
	AsLimit  int64    `json:"as_limit,omitempty"`    // prlimit --as (bytes of address space); 0 = none
	NoHooks  bool     `json:"no_hooks,omitempty"`
	TimeoutMs int     `json:"timeout_ms,omitempty"`
	RunAs    uint32   `json:"run_as,omitempty"`  // run the command as this (unprivileged) uid/gid; the tree is chown'ed to it
	RoDirs   []string `json:"ro_dirs,omitempty"` // directories made read-only (0555) before the run and writable again after it
	Meta     json.RawMessage `json:"meta,omitempty"` // passed through
}

type Entry struct {
	Path  string `json:"path"`
	Type  string `json:"type"` // f d l o
	Sha   string `json:"sha"`
	Size  int64  `json:"size"`
	Mode  uint32 `json:"mode"`
	Mtime int64  `json:"mtime"`
	Ino   uint64 `json:"ino"`
}

type SysEvent struct {
	Call  string `json:"call"`
	Path  string `json:"path"` // relative to root when inside it
	Flags string `json:"flags"`
	Ret   string `json:"ret"`
	Write bool   `json:"write"` // the call can modify the file system
}

type RunRec struct {
	ID      string            `json:"id"`
	Exit    int               `json:"exit"`
	Signal  string            `json:"signal"`
	Timeout bool              `json:"timeout"`
	Stdout  string            `json:"stdout"`
	Stderr  string            `json:"stderr"`
	Before  []Entry           `json:"before"`
	After   []Entry           `json:"after"`
	Content map[string]string `json:"content"` // contents after the run of regular files (small)
	Sys     []SysEvent        `json:"sys"`
	Events  []map[string]any  `json:"events"` // hook events (verif build)
	Root    string            `json:"root"`
	Meta    json.RawMessage   `json:"meta,omitempty"`
	WallMs  int64             `json:"wall_ms"`
}

func snapshot(root string, withContent map[string]string) ([]Entry, error) {
	var out []Entry
	err := filepath.Walk(root, func(p string, info os.FileInfo, err error) error {
		if err != nil {
			return err
		}
		rel, _ := filepath.Rel(root, p)
		if rel == "." {
			return nil
		}
		e := Entry{Path: rel, Size: info.Size(), Mode: uint32(info.Mode().Perm()), Mtime: info.ModTime().UnixNano()}
		if st, ok := info.Sys().(*syscall.Stat_t); ok {
			e.Ino = st.Ino
		}
		switch {
		case info.Mode().IsRegular():
			e.Type = "f"
			b, err := os.ReadFile(p)
			if err != nil {
				return err
			}
			h := sha256.Sum256(b)
			e.Sha = hex.EncodeToString(h[:])
			if withContent != nil && len(b) < 1<<20 {
				withContent[rel] = string(b)
			}
		case info.IsDir():
			e.Type = "d"
			e.Size = 0
			e.Mtime = 0 // directory mtimes change when strace output etc. is created elsewhere; not judged
		case info.Mode()&os.ModeSymlink != 0:
			e.Type = "l"
			t, _ := os.Readlink(p)
			e.Sha = t
		default:
			e.Type = "o"
		}
		out = append(out, e)
		return nil
	})
	sort.Slice(out, func(i, j int) bool { return out[i].Path < out[j].Path })
	return out, err
}

var (
	straceLine = regexp.MustCompile(`^(\d+)\s+(\w+)\((.*)\)\s+=\s+(.+)$`)
	fdPath     = regexp.MustCompile(`^\d+<([^>]*)>`)
	quoted     = regexp.MustCompile(`"((?:[^"\\]|\\.)*)"`)
)

func parseStrace(path, root string) ([]SysEvent, error) {
	f, err := os.Open(path)
	if err != nil {
		return nil, err
	}
	defer f.Close()
	var out []SysEvent
	sc := bufio.NewScanner(f)
	sc.Buffer(make([]byte, 1<<20), 1<<28)
	rel := func(p string) (string, bool) {
		if p == root {
			return ".", true
		}
		if strings.HasPrefix(p, root+"/") {
			return p[len(root)+1:], true
		}
		return p, false
	}
	for sc.Scan() {
		line := sc.Text()
		m := straceLine.FindStringSubmatch(line)
		if m == nil {
			continue
		}
		call, args, ret := m[2], m[3], m[4]
		ev := SysEvent{Call: call, Ret: ret}
		var p string
		inside := false
		switch call {
		case "openat", "open", "creat", "mkdir", "mkdirat", "unlink", "unlinkat", "chmod", "fchmodat", "truncate",
			"rename", "renameat", "renameat2", "link", "linkat", "symlink", "symlinkat", "rmdir", "chown", "utimensat":
			qs := quoted.FindAllStringSubmatch(args, -1)
			for _, q := range qs {
				cand := q[1]
				if !filepath.IsAbs(cand) {
					// relative to the dirfd / cwd annotation
					if d := fdDir(args); d != "" {
						cand = filepath.Join(d, cand)
					}
				}
				if r, ok := rel(filepath.Clean(cand)); ok {
					p, inside = r, true
				}
			}
			if i := strings.LastIndex(args, "\", "); i >= 0 {
				ev.Flags = strings.TrimSpace(args[i+3:])
			}
		case "write", "pwrite64", "writev", "close", "ftruncate", "fchmod", "fsync", "fchown":
			if fm := fdPath.FindStringSubmatch(args); fm != nil {
				if r, ok := rel(fm[1]); ok {
					p, inside = r, true
				}
			}
			if call != "close" {
				if i := strings.LastIndex(args, ", "); i >= 0 {
					ev.Flags = strings.TrimSpace(args[i+2:])
				}
			}
		default:
			continue
		}
		if !inside {
			continue
		}
		ev.Path = p
		switch call {
		case "openat", "open":
			ev.Write = strings.Contains(ev.Flags, "O_WRONLY") || strings.Contains(ev.Flags, "O_RDWR") ||
				strings.Contains(ev.Flags, "O_CREAT") || strings.Contains(ev.Flags, "O_TRUNC") || strings.Contains(ev.Flags, "O_APPEND")
		case "close", "fsync":
			ev.Write = false
		default:
			ev.Write = true
		}
		out = append(out, ev)
	}
	return out, sc.Err()
}

var dirfdRe = regexp.MustCompile(`^AT_FDCWD<([^>]*)>|^\d+<([^>]*)>`)

func fdDir(args string) string {
	m := dirfdRe.FindStringSubmatch(args)
	if m == nil {
		return ""
	}
	if m[1] != "" {
		return m[1]
	}
	return m[2]
}

func runScenario(bin, workdir string, sc *Scenario) (*RunRec, error) {
	root, err := os.MkdirTemp(workdir, "sc")
	if err != nil {
		return nil, err
	}
	defer os.RemoveAll(root)
	root, _ = filepath.EvalSymlinks(root)
	tree := filepath.Join(root, "t")
	if err := os.Mkdir(tree, 0o755); err != nil {
		return nil, err
	}
	for _, d := range sc.Dirs {
		if err := os.MkdirAll(filepath.Join(tree, d), 0o755); err != nil {
			return nil, err
		}
	}
	old := time.Unix(1500000000, 0)
	for _, f := range sc.Files {
		p := filepath.Join(tree, f.Path)
		if err := os.MkdirAll(filepath.Dir(p), 0o755); err != nil {
			return nil, err
		}
		mode := os.FileMode(0o644)
		if f.Mode != 0 {
			mode = os.FileMode(f.Mode)
		}
		if err := os.WriteFile(p, []byte(f.Content), mode); err != nil {
			return nil, err
		}
		os.Chmod(p, mode)
		os.Chtimes(p, old, old)
	}
	for _, l := range sc.Symlinks {
		p := filepath.Join(tree, l.Path)
		if err := os.MkdirAll(filepath.Dir(p), 0o755); err != nil {
			return nil, err
		}
		if err := os.Symlink(l.Target, p); err != nil {
			return nil, err
		}
	}
	for _, l := range sc.Hardlinks {
		p := filepath.Join(tree, l.Path)
		if err := os.MkdirAll(filepath.Dir(p), 0o755); err != nil {
			return nil, err
		}
		if err := os.Link(filepath.Join(tree, l.Target), p); err != nil {
			return nil, err
		}
	}
	if sc.RunAs != 0 {
		os.Chmod(root, 0o755) // MkdirTemp creates it 0700
		os.Lchown(root, int(sc.RunAs), int(sc.RunAs)) // strace writes its output there
		filepath.Walk(tree, func(p string, info os.FileInfo, err error) error {
			if err == nil {
				os.Lchown(p, int(sc.RunAs), int(sc.RunAs))
			}
			return nil
		})
	}
	for _, d := range sc.RoDirs {
		os.Chmod(filepath.Join(tree, d), 0o555)
	}
	defer func() {
		for _, d := range sc.RoDirs {
			os.Chmod(filepath.Join(tree, d), 0o755)
		}
	}()
	rec := &RunRec{ID: sc.ID, Root: tree, Meta: sc.Meta, Content: map[string]string{}}
	if rec.Before, err = snapshot(tree, nil); err != nil {
		return nil, err
	}
	args := make([]string, len(sc.Args))
	for i, a := range sc.Args {
		args[i] = strings.ReplaceAll(a, "{ROOT}", tree)
	}
	var cmdline []string
	if sc.RunAs != 0 {
		// (setpriv rather than exec's Credential: merely referencing syscall.Credential made every exec of
		// this harness spend more than a second of system time in this sandbox)
		id := fmt.Sprint(sc.RunAs)
		cmdline = []string{"setpriv", "--reuid=" + id, "--regid=" + id, "--clear-groups"}
	}
	traceFile := filepath.Join(root, "strace.out")
	if sc.Strace || sc.Inject != "" {
		cmdline = append(cmdline, "strace", "-f", "-y", "-s", "0", "-o", traceFile,
			"-e", "trace=openat,open,creat,write,pwrite64,writev,close,rename,renameat,renameat2,unlink,unlinkat,rmdir,mkdir,mkdirat,chmod,fchmod,fchmodat,truncate,ftruncate,link,linkat,symlink,symlinkat,fsync,utimensat")
		if sc.Inject != "" {
			cmdline = append(cmdline, "-e", "inject="+sc.Inject)
		}
		if sc.TracePath != "" {
			cmdline = append(cmdline, "-P", filepath.Join(tree, sc.TracePath))
		}
	}
	if sc.UseFsize {
		cmdline = append(cmdline, "prlimit", fmt.Sprintf("--fsize=%d", sc.Fsize))
	}
	if sc.AsLimit > 0 {
		cmdline = append(cmdline, "prlimit", fmt.Sprintf("--as=%d", sc.AsLimit))
	}
	cmdline = append(cmdline, bin)
	cmdline = append(cmdline, args...)
	to := 20 * time.Second
	if sc.TimeoutMs > 0 {
		to = time.Duration(sc.TimeoutMs) * time.Millisecond
	}
	ctx, cancel := context.WithTimeout(context.Background(), to)
	defer cancel()
	cmd := exec.CommandContext(ctx, cmdline[0], cmdline[1:]...)
	cmd.Dir = filepath.Join(tree, sc.Cwd)
	cmd.Stdin = strings.NewReader(sc.Stdin)
	var so, se bytes.Buffer
	cmd.Stdout, cmd.Stderr = &so, &se
	if sc.StdoutFull {
		if full, err := os.OpenFile("/dev/full", os.O_WRONLY, 0); err == nil {
			defer full.Close()
			cmd.Stdout = full
		}
	}
	cmd.Env = os.Environ()
	if sc.PwdLogical {
		cmd.Env = append(cmd.Env, "PWD="+cmd.Dir)
	}
	if sc.RunAs != 0 {
		cmd.Env = append(cmd.Env, "HOME=/nonexistent")
	}
	if !sc.NoHooks {
		cmd.Env = append(cmd.Env, "GOPATCH_VERIF_TRACE="+filepath.Join(root, "events.ndjson"))
	}
	t0 := time.Now()
	err = cmd.Run()
	rec.WallMs = time.Since(t0).Milliseconds()
	if ctx.Err() == context.DeadlineExceeded {
		rec.Timeout = true
	}
	if err != nil {
		if ee, ok := err.(*exec.ExitError); ok {
			rec.Exit = ee.ExitCode()
			if ws, ok := ee.Sys().(syscall.WaitStatus); ok && ws.Signaled() {
				rec.Signal = ws.Signal().String()
				rec.Exit = 128 + int(ws.Signal())
			}
		} else {
			return nil, fmt.Errorf("scenario %s: %v", sc.ID, err)
		}
	}
	rec.Stdout, rec.Stderr = so.String(), se.String()
	if rec.After, err = snapshot(tree, rec.Content); err != nil {
		return nil, err
	}
	if sc.Strace || sc.Inject != "" {
		if rec.Sys, err = parseStrace(traceFile, tree); err != nil {
			return nil, err
		}
	}
	if rec.Sys == nil {
		rec.Sys = []SysEvent{}
	}
	rec.Events = []map[string]any{}
	if b, err := os.ReadFile(filepath.Join(root, "events.ndjson")); err == nil {
		for _, line := range strings.Split(string(b), "\n") {
			if strings.TrimSpace(line) == "" {
				continue
			}
			var m map[string]any
			if json.Unmarshal([]byte(line), &m) == nil {
				if f, ok := m["file"].(string); ok && strings.HasPrefix(f, tree+"/") {
					m["file"] = f[len(tree)+1:]
				}
				rec.Events = append(rec.Events, m)
			}
		}
	}
	return rec, nil
}

func cmdCli(in, out, bin, work string, par int) error {
	fi, err := os.Open(in)
	if err != nil {
		return err
	}
	defer fi.Close()
	var scs []*Scenario
	sc := bufio.NewScanner(fi)
	sc.Buffer(make([]byte, 1<<20), 1<<30)
	for sc.Scan() {
		if strings.TrimSpace(sc.Text()) == "" {
			continue
		}
		var s Scenario
		if err := json.Unmarshal(sc.Bytes(), &s); err != nil {
			return err
		}
		scs = append(scs, &s)
	}
	if err := os.MkdirAll(work, 0o755); err != nil {
		return err
	}
	recs := make([]*RunRec, len(scs))
	errs := make([]error, len(scs))
	var wg sync.WaitGroup
	sem := make(chan struct{}, par)
	for i := range scs {
		wg.Add(1)
		sem <- struct{}{}
		go func(i int) {
			defer wg.Done()
			defer func() { <-sem }()
			recs[i], errs[i] = runScenario(bin, work, scs[i])
		}(i)
	}
	wg.Wait()
	fo, err := os.Create(out)
	if err != nil {
		return err
	}
	defer fo.Close()
	w := bufio.NewWriter(fo)
	defer w.Flush()
	enc := json.NewEncoder(w)
	enc.SetEscapeHTML(false)
	for i, r := range recs {
		if errs[i] != nil {
			return errs[i]
		}
		if err := enc.Encode(r); err != nil {
			return err
		}
	}
	return nil
}
