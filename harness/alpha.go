package main

// Generic abstraction (alpha) of go/ast trees into uniformly shaped terms and
// its inverse. Written against go/ast by reflection only; it does not import
// or mirror anything from gopatch's engine.
//
// term = {k: kind, s: [slot]}        slot = {t, a, ty, v}
//   t = "n" one child (v = [child])     t = "l" list of children
//   t = "z" nil child                    t = "a" atom (a = string value)
// Every record has every key, so TLC never compares a string with a record.
// Pattern-only terms:
//   @meta    s = [atom name, atom kind("ident"|"expr")]
//   @dots    s = [atom id]
//   @fordots s = [atom id, n body]

import (
	"bytes"
	"fmt"
	"go/ast"
	"go/printer"
	"go/token"
	"reflect"
	"strings"
)

type Term struct {
	K string  `json:"k"`
	S []*Slot `json:"s"`
}

type Slot struct {
	T  string  `json:"t"`
	A  string  `json:"a"`
	Ty string  `json:"ty"`
	V  []*Term `json:"v"`
}

func atom(v string) *Slot          { return &Slot{T: "a", A: v, Ty: "-", V: []*Term{}} }
func nslot(ty string, t *Term) *Slot { return &Slot{T: "n", Ty: ty, V: []*Term{t}} }
func zslot(ty string) *Slot         { return &Slot{T: "z", Ty: ty, V: []*Term{}} }
func lslot(ty string, l []*Term) *Slot {
	if l == nil {
		l = []*Term{}
	}
	return &Slot{T: "l", Ty: ty, V: l}
}

func MetaTerm(name, kind string) *Term {
	return &Term{K: "@meta", S: []*Slot{atom(name), atom(kind)}}
}
func DotsTerm(id string) *Term { return &Term{K: "@dots", S: []*Slot{atom(id)}} }
func ForDotsTerm(id string, body *Term) *Term {
	return &Term{K: "@fordots", S: []*Slot{atom(id), nslot("BlockStmt", body)}}
}

var (
	posType   = reflect.TypeOf(token.Pos(0))
	cgType    = reflect.TypeOf((*ast.CommentGroup)(nil))
	objType   = reflect.TypeOf((*ast.Object)(nil))
	scopeType = reflect.TypeOf((*ast.Scope)(nil))
	tokType   = reflect.TypeOf(token.Token(0))
	exprIface = reflect.TypeOf((*ast.Expr)(nil)).Elem()
	stmtIface = reflect.TypeOf((*ast.Stmt)(nil)).Elem()
	declIface = reflect.TypeOf((*ast.Decl)(nil)).Elem()
	specIface = reflect.TypeOf((*ast.Spec)(nil)).Elem()
)

// nodeTypes is the registry of concrete go/ast node struct types by name.
var nodeTypes = map[string]reflect.Type{}

func init() {
	for _, n := range []ast.Node{
		&ast.ArrayType{}, &ast.AssignStmt{}, &ast.BadDecl{}, &ast.BadExpr{}, &ast.BadStmt{},
		&ast.BasicLit{}, &ast.BinaryExpr{}, &ast.BlockStmt{}, &ast.BranchStmt{}, &ast.CallExpr{},
		&ast.CaseClause{}, &ast.ChanType{}, &ast.CommClause{}, &ast.CompositeLit{}, &ast.DeclStmt{},
		&ast.DeferStmt{}, &ast.Ellipsis{}, &ast.EmptyStmt{}, &ast.ExprStmt{}, &ast.Field{},
		&ast.FieldList{}, &ast.File{}, &ast.ForStmt{}, &ast.FuncDecl{}, &ast.FuncLit{},
		&ast.FuncType{}, &ast.GenDecl{}, &ast.GoStmt{}, &ast.Ident{}, &ast.IfStmt{},
		&ast.ImportSpec{}, &ast.IncDecStmt{}, &ast.IndexExpr{}, &ast.IndexListExpr{}, &ast.InterfaceType{},
		&ast.KeyValueExpr{}, &ast.LabeledStmt{}, &ast.MapType{}, &ast.ParenExpr{}, &ast.RangeStmt{},
		&ast.ReturnStmt{}, &ast.SelectStmt{}, &ast.SelectorExpr{}, &ast.SendStmt{}, &ast.SliceExpr{},
		&ast.StarExpr{}, &ast.StructType{}, &ast.SwitchStmt{}, &ast.TypeAssertExpr{}, &ast.TypeSpec{},
		&ast.TypeSwitchStmt{}, &ast.UnaryExpr{}, &ast.ValueSpec{},
	} {
		t := reflect.TypeOf(n).Elem()
		nodeTypes[t.Name()] = t
	}
}

func tyName(t reflect.Type) string {
	switch t.Kind() {
	case reflect.Ptr:
		return t.Elem().Name()
	case reflect.Slice:
		return tyName(t.Elem())
	}
	return t.Name()
}

// skipField reports fields that are not part of the abstraction.
func skipField(st reflect.Type, f reflect.StructField) bool {
	switch f.Type {
	case cgType, objType, scopeType:
		return true
	}
	if st.Name() == "File" {
		switch f.Name {
		case "Name", "Decls":
			return false
		}
		return true
	}
	return false
}

// AlphaOpts controls the file-level abstraction.
type AlphaOpts struct {
	KeepImports bool // keep import declarations inside File.Decls
}

func Alpha(n ast.Node) *Term { return AlphaWith(n, AlphaOpts{}) }

func AlphaWith(n ast.Node, o AlphaOpts) *Term {
	return alphaVal(reflect.ValueOf(n), o)
}

func alphaVal(v reflect.Value, o AlphaOpts) *Term {
	for v.Kind() == reflect.Interface {
		v = v.Elem()
	}
	if v.Kind() != reflect.Ptr {
		panic("alpha: not a pointer: " + v.Type().String())
	}
	sv := v.Elem()
	st := sv.Type()
	t := &Term{K: st.Name(), S: []*Slot{}}
	for i := 0; i < st.NumField(); i++ {
		f := st.Field(i)
		if skipField(st, f) {
			continue
		}
		fv := sv.Field(i)
		switch {
		case f.Type == posType:
			if token.Pos(fv.Int()).IsValid() {
				t.S = append(t.S, atom("1"))
			} else {
				t.S = append(t.S, atom("0"))
			}
		case f.Type == tokType:
			t.S = append(t.S, atom(token.Token(fv.Int()).String()))
		case fv.Kind() == reflect.Ptr || fv.Kind() == reflect.Interface:
			if fv.IsNil() {
				t.S = append(t.S, zslot(tyName(f.Type)))
			} else {
				t.S = append(t.S, nslot(tyName(f.Type), alphaVal(fv, o)))
			}
		case fv.Kind() == reflect.Slice && fv.IsNil() && st.Name() == "CaseClause" && f.Name == "List":
			// "default:" - a clause without the keyword "case" - is not a "case" clause with an empty list
			t.S = append(t.S, zslot(tyName(f.Type)))
		case fv.Kind() == reflect.Slice:
			l := []*Term{}
			for j := 0; j < fv.Len(); j++ {
				e := fv.Index(j)
				if st.Name() == "File" && !o.KeepImports {
					if gd, ok := e.Interface().(*ast.GenDecl); ok && gd.Tok == token.IMPORT {
						continue
					}
				}
				l = append(l, alphaVal(e, o))
			}
			t.S = append(t.S, lslot(tyName(f.Type), l))
		case fv.Kind() == reflect.String:
			t.S = append(t.S, atom(fv.String()))
		case fv.Kind() == reflect.Bool:
			t.S = append(t.S, atom(fmt.Sprint(fv.Bool())))
		case fv.Kind() == reflect.Int:
			t.S = append(t.S, atom(fmt.Sprint(fv.Int())))
		default:
			panic("alpha: unhandled field " + st.Name() + "." + f.Name)
		}
	}
	return t
}

// ---------------------------------------------------------------------------
// inverse: term -> ast.Node -> text

const dotsPrefix = "VDOTS"

// Inverse rebuilds a go/ast node from a term. Pattern holes become
// placeholder identifiers: metavariables print as their name, dots as
// VDOTS<id> (replaced by "..." textually afterwards).
func Inverse(t *Term) ast.Node {
	v := inverseVal(t)
	return v.Interface().(ast.Node)
}

func inverseVal(t *Term) reflect.Value {
	switch t.K {
	case "@meta":
		return reflect.ValueOf(&ast.Ident{NamePos: 1, Name: t.S[0].A})
	case "@dots":
		return reflect.ValueOf(&ast.Ident{NamePos: 1, Name: dotsPrefix + t.S[0].A})
	case "@fordots":
		body := inverseVal(t.S[1].V[0]).Interface().(*ast.BlockStmt)
		return reflect.ValueOf(&ast.ForStmt{For: 1, Cond: &ast.Ident{NamePos: 1, Name: dotsPrefix + t.S[0].A}, Body: body})
	}
	st, ok := nodeTypes[t.K]
	if !ok {
		panic("inverse: unknown kind " + t.K)
	}
	pv := reflect.New(st)
	sv := pv.Elem()
	si := 0
	for i := 0; i < st.NumField(); i++ {
		f := st.Field(i)
		if skipField(st, f) {
			continue
		}
		if si >= len(t.S) {
			panic("inverse: too few slots for " + t.K)
		}
		s := t.S[si]
		si++
		fv := sv.Field(i)
		switch {
		case f.Type == posType:
			if s.A == "1" {
				fv.SetInt(1)
			}
		case f.Type == tokType:
			fv.SetInt(int64(lookupTok(s.A)))
		case fv.Kind() == reflect.Ptr || fv.Kind() == reflect.Interface:
			if s.T == "n" {
				fv.Set(adapt(inverseVal(s.V[0]), f.Type))
			}
		case fv.Kind() == reflect.Slice:
			if len(s.V) > 0 {
				sl := reflect.MakeSlice(f.Type, len(s.V), len(s.V))
				for j, e := range s.V {
					sl.Index(j).Set(adapt(inverseVal(e), f.Type.Elem()))
				}
				fv.Set(sl)
			}
		case fv.Kind() == reflect.String:
			fv.SetString(s.A)
		case fv.Kind() == reflect.Bool:
			fv.SetBool(s.A == "true")
		case fv.Kind() == reflect.Int:
			var n int64
			fmt.Sscan(s.A, &n)
			fv.SetInt(n)
		}
	}
	return pv
}

// adapt wraps placeholder identifiers so that they fit a slot of the given
// static type (a dots placeholder in a statement list becomes an expression
// statement, in a field list a field with that type).
func adapt(v reflect.Value, want reflect.Type) reflect.Value {
	if v.Type().AssignableTo(want) {
		return v
	}
	if id, ok := v.Interface().(*ast.Ident); ok {
		switch {
		case want == stmtIface:
			return reflect.ValueOf(&ast.ExprStmt{X: id})
		case want == reflect.TypeOf((*ast.Field)(nil)):
			return reflect.ValueOf(&ast.Field{Type: id})
		}
	}
	panic(fmt.Sprintf("inverse: %v does not fit %v", v.Type(), want))
}

var tokByName = map[string]token.Token{}

func init() {
	for t := token.ILLEGAL; t <= token.TILDE; t++ {
		tokByName[t.String()] = t
	}
}

func lookupTok(s string) token.Token {
	if t, ok := tokByName[s]; ok {
		return t
	}
	panic("inverse: unknown token " + s)
}

// Render prints a term as Go text. Dots placeholders become "...".
func Render(t *Term) string {
	n := Inverse(t)
	var buf bytes.Buffer
	fset := token.NewFileSet()
	if err := (&printer.Config{Mode: printer.UseSpaces | printer.TabIndent, Tabwidth: 8}).Fprint(&buf, fset, n); err != nil {
		panic(err)
	}
	return fixDots(buf.String())
}

// RenderStmts prints a list of statement terms, one per line.
func RenderStmts(l []*Term) string {
	var sb strings.Builder
	for _, t := range l {
		var n ast.Node = Inverse(t)
		if id, ok := n.(*ast.Ident); ok {
			n = &ast.ExprStmt{X: id}
		}
		var buf bytes.Buffer
		if err := printer.Fprint(&buf, token.NewFileSet(), n); err != nil {
			panic(err)
		}
		sb.WriteString(fixDots(buf.String()))
		sb.WriteString("\n")
	}
	return sb.String()
}

func fixDots(s string) string {
	for {
		i := strings.Index(s, dotsPrefix)
		if i < 0 {
			return s
		}
		j := i + len(dotsPrefix)
		for j < len(s) && (s[j] >= '0' && s[j] <= '9' || s[j] >= 'a' && s[j] <= 'z' || s[j] == '_') {
			j++
		}
		s = s[:i] + "..." + s[j:]
	}
}

// StripParens removes every ParenExpr from a term (in place copy).
func StripParens(t *Term) *Term {
	if t.K == "ParenExpr" {
		return StripParens(t.S[1].V[0])
	}
	out := &Term{K: t.K, S: make([]*Slot, len(t.S))}
	for i, s := range t.S {
		ns := &Slot{T: s.T, A: s.A, Ty: s.Ty, V: make([]*Term, len(s.V))}
		for j, e := range s.V {
			ns.V[j] = StripParens(e)
		}
		out.S[i] = ns
	}
	return out
}

func CloneTerm(t *Term) *Term {
	out := &Term{K: t.K, S: make([]*Slot, len(t.S))}
	for i, s := range t.S {
		ns := &Slot{T: s.T, A: s.A, Ty: s.Ty, V: make([]*Term, len(s.V))}
		for j, e := range s.V {
			ns.V[j] = CloneTerm(e)
		}
		out.S[i] = ns
	}
	return out
}

func TermEq(a, b *Term) bool {
	if a.K != b.K || len(a.S) != len(b.S) {
		return false
	}
	for i := range a.S {
		x, y := a.S[i], b.S[i]
		if x.T != y.T || x.A != y.A || len(x.V) != len(y.V) {
			return false
		}
		for j := range x.V {
			if !TermEq(x.V[j], y.V[j]) {
				return false
			}
		}
	}
	return true
}
