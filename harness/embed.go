package main

// Embedding abstract subjects (expressions / statement lists) into template
// Go files so that every subject occurs at several syntactic positions and
// nesting depths. Template identifiers all start with "t_" so they cannot
// collide with the alphabets used by the TLC-generated vectors.

import (
	"fmt"
	"strings"
)

func EmbedSubjects(tmpl, class string, subjects []*Term) (string, error) {
	var sb strings.Builder
	sb.WriteString("package t_pkg\n\n")
	for i, s := range subjects {
		switch class {
		case "expr":
			e := strings.TrimSpace(Render(s))
			switch tmpl {
			case "", "exprs":
				fmt.Fprintf(&sb, exprTemplate, i, e, e, e, e, e, e, e, e, e)
			case "one":
				fmt.Fprintf(&sb, "func t_h%d() {\n\tt_use(%s)\n}\n\n", i, e)
			default:
				return "", fmt.Errorf("unknown template %q", tmpl)
			}
		case "stmts":
			// subject is an @stmts-shaped term or a BlockStmt: use its list
			var l []*Term
			switch s.K {
			case "BlockStmt":
				l = s.S[1].V
			default:
				l = s.S[0].V
			}
			body := indent(RenderStmts(l), "\t")
			deep := indent(RenderStmts(l), "\t\t\t")
			fmt.Fprintf(&sb, stmtTemplate, i, body, i, deep, deep, deep, deep)
		default:
			return "", fmt.Errorf("cannot embed class %q", class)
		}
	}
	return sb.String(), nil
}

func indent(s, pre string) string {
	lines := strings.Split(strings.TrimRight(s, "\n"), "\n")
	for i, l := range lines {
		if l != "" {
			lines[i] = pre + l
		}
	}
	return strings.Join(lines, "\n")
}

// positions: assignment rhs, call argument, go/defer argument, composite
// element, case expression, closure result, nested block, operand, index.
const exprTemplate = `func t_h%d(t_p int) int {
	t_v := %s
	t_use(%s)
	go t_run(%s)
	defer t_run(%s)
	if t_c {
		for {
			_ = []t_T{%s}
		}
	}
	switch {
	case t_eq(%s):
	}
	t_z := func() t_T { return %s }
	_ = t_m[%s]
	return t_w + (%s)
}

`

// positions: function body, nested block, case body, comm body, closure body
const stmtTemplate = `func t_s%d() {
%s
}

func t_n%d() {
	if t_c {
		for {
%s
		}
	}
	switch t_x {
	case 1:
%s
	}
	select {
	case <-t_ch:
%s
	}
	t_f := func() {
%s
	}
}

`
