package main

// vh rewrite: replay abstract vectors into the real patch.Parse / File.Apply
// and record what happened as `rewrite` cases for TraceRewrite.tla.

import (
	"bufio"
	"encoding/json"
	"fmt"
	"go/parser"
	"go/token"
	"os"
	"strings"
	"time"

	"github.com/uber-go/gopatch/patch"
)

type Case struct {
	ID      string     `json:"id"`
	Prop    []string   `json:"prop"`
	Class   string     `json:"class"`
	Metas   []MetaDecl `json:"metas"`
	Pat     *Term      `json:"pat"`
	Plus    *Term      `json:"plus"`
	In      *Term      `json:"in"`
	Out     *Term      `json:"out"`
	Err     string     `json:"err"`     // "" | parse:<msg> | apply:<msg> | panic:<msg> | timeout | outparse:<msg>
	Changed string     `json:"changed"` // "1" if output bytes differ from input bytes
	Patch   string     `json:"patch"`
	Src     string     `json:"src"`
	Got     string     `json:"got"`
	Note    string     `json:"note"`
	Guard   string     `json:"guard"` // "fail": a package / import guard of the change does not hold; the file must stay as it is
}

type applyResult struct {
	out []byte
	err string
}

// applyGuarded runs Parse+Apply under recover and a watchdog.
func applyGuarded(patchText, name string, src []byte, timeout time.Duration) applyResult {
	ch := make(chan applyResult, 1)
	go func() {
		defer func() {
			if r := recover(); r != nil {
				ch <- applyResult{err: fmt.Sprintf("panic:%v", r)}
			}
		}()
		pf, err := patch.Parse("v.patch", []byte(patchText))
		if err != nil {
			ch <- applyResult{err: "parse:" + err.Error()}
			return
		}
		out, err := pf.Apply(name, src)
		if err != nil {
			ch <- applyResult{err: "apply:" + err.Error()}
			return
		}
		ch <- applyResult{out: out}
	}()
	select {
	case r := <-ch:
		return r
	case <-time.After(timeout):
		return applyResult{err: "timeout"}
	}
}

// applySeq parses the patch once, applies it to every source of before (results dropped), then to src
// 1+repeat times; the applications of src must all return the same bytes and error.
func applySeq(patchText, name string, before []string, src []byte, repeat int, timeout time.Duration) applyResult {
	ch := make(chan applyResult, 1)
	go func() {
		defer func() {
			if r := recover(); r != nil {
				ch <- applyResult{err: fmt.Sprintf("panic:%v", r)}
			}
		}()
		pf, err := patch.Parse("v.patch", []byte(patchText))
		if err != nil {
			ch <- applyResult{err: "parse:" + err.Error()}
			return
		}
		for i, b := range before {
			pf.Apply(fmt.Sprintf("before%d.go", i), []byte(b))
		}
		var first applyResult
		for i := 0; i <= repeat; i++ {
			var r applyResult
			out, err := pf.Apply(name, src)
			if err != nil {
				r.err = "apply:" + err.Error()
			} else {
				r.out = out
			}
			if i == 0 {
				first = r
			} else if string(r.out) != string(first.out) || r.err != first.err {
				ch <- applyResult{out: r.out, err: fmt.Sprintf("unstable: application %d of the same source differs from the first: %q / %q", i+1, r.out, r.err)}
				return
			}
		}
		ch <- first
	}()
	select {
	case r := <-ch:
		return r
	case <-time.After(timeout):
		return applyResult{err: "timeout"}
	}
}

func sourceOf(v *Vector) (string, error) {
	if v.Src != "" {
		return v.Src, nil
	}
	return EmbedSubjects(v.Tmpl, v.Class, v.Subjects)
}

func runVector(v *Vector) *Case {
	c := &Case{ID: v.ID, Prop: v.Prop, Class: v.Class, Metas: v.Metas, Pat: v.Pat, Plus: v.Plus, Note: v.Note, Guard: v.Guard}
	if c.Prop == nil {
		c.Prop = []string{}
	}
	if c.Metas == nil {
		c.Metas = []MetaDecl{}
	}
	src, err := sourceOf(v)
	if err != nil {
		c.Err = "harness:" + err.Error()
		return c
	}
	c.Src = src
	c.Patch = PatchText(v)
	fin, err := parser.ParseFile(token.NewFileSet(), "in.go", src, parser.ParseComments)
	if err != nil {
		c.Err = "harness:input does not parse: " + err.Error()
		return c
	}
	c.In = Alpha(fin)
	c.Out = c.In
	r := applyGuarded(c.Patch, "in.go", []byte(src), 10*time.Second)
	if r.err != "" {
		c.Err = r.err
		return c
	}
	c.Got = string(r.out)
	if c.Got != src {
		c.Changed = "1"
	} else {
		c.Changed = "0"
	}
	fout, err := parser.ParseFile(token.NewFileSet(), "out.go", r.out, parser.ParseComments)
	if err != nil {
		c.Err = "outparse:" + err.Error()
		return c
	}
	c.Out = Alpha(fout)
	return c
}

// selfCheck verifies that rendering a term and abstracting the parsed text
// gives the term back (so TLC and the real code talk about the same thing).
func selfCheck(v *Vector) error {
	for _, side := range []*Term{v.Pat, v.Plus} {
		txt := PatternText(v.Class, side)
		back, err := PatternFromText(v.Class, txt, v.Metas)
		if err != nil {
			return fmt.Errorf("pattern %q does not parse back: %v", txt, err)
		}
		if !TermEq(back, side) {
			return fmt.Errorf("pattern %q does not round-trip", txt)
		}
	}
	return nil
}

func checkSubjects(class string, subjects []*Term) error {
	for _, s := range subjects {
		switch class {
		case "expr":
			txt := Render(s)
			e, err := parser.ParseExpr(txt)
			if err != nil {
				return fmt.Errorf("subject %q: %v", txt, err)
			}
			// the printer adds the parentheses a right-nested tree needs
			if !TermEq(StripParens(Alpha(e)), StripParens(s)) {
				return fmt.Errorf("subject %q does not round-trip", txt)
			}
		}
	}
	return nil
}

func readTerms(path string) ([]*Term, error) {
	f, err := os.Open(path)
	if err != nil {
		return nil, err
	}
	defer f.Close()
	sc := bufio.NewScanner(f)
	sc.Buffer(make([]byte, 1<<20), 1<<30)
	var out []*Term
	for sc.Scan() {
		if strings.TrimSpace(sc.Text()) == "" {
			continue
		}
		var t Term
		if err := json.Unmarshal(sc.Bytes(), &t); err != nil {
			return nil, err
		}
		out = append(out, &t)
	}
	return out, sc.Err()
}

func cmdRewrite(in, out, subjectsFile string) error {
	var subjects []*Term
	subjectsChecked := false
	if subjectsFile != "" {
		var err error
		if subjects, err = readTerms(subjectsFile); err != nil {
			return err
		}
	}
	fi, err := os.Open(in)
	if err != nil {
		return err
	}
	defer fi.Close()
	fo, err := os.Create(out)
	if err != nil {
		return err
	}
	defer fo.Close()
	w := bufio.NewWriter(fo)
	defer w.Flush()
	enc := json.NewEncoder(w)
	enc.SetEscapeHTML(false)
	sc := bufio.NewScanner(fi)
	sc.Buffer(make([]byte, 1<<20), 1<<30)
	n := 0
	for sc.Scan() {
		line := strings.TrimSpace(sc.Text())
		if line == "" {
			continue
		}
		var v Vector
		if err := json.Unmarshal([]byte(line), &v); err != nil {
			return fmt.Errorf("vector %d: %w", n+1, err)
		}
		if v.UseSubj {
			v.Subjects = subjects
			if v.Stride > 1 {
				v.Subjects = nil
				for i := v.Offset % v.Stride; i < len(subjects); i += v.Stride {
					v.Subjects = append(v.Subjects, subjects[i])
				}
			}
			if !subjectsChecked {
				if err := checkSubjects(v.Class, subjects); err != nil {
					return err
				}
				subjectsChecked = true
			}
		}
		if v.Src == "" || v.Note == "selfcheck" {
			if err := selfCheck(&v); err != nil {
				return fmt.Errorf("vector %s: %w", v.ID, err)
			}
		}
		c := runVector(&v)
		if strings.HasPrefix(c.Err, "harness:") {
			return fmt.Errorf("vector %s: %s", v.ID, c.Err)
		}
		if err := enc.Encode(c); err != nil {
			return err
		}
		n++
	}
	return sc.Err()
}
