package main

// Building abstract patterns from text (for hand-written and corpus vectors)
// and rendering abstract patterns into patch files.

import (
	"fmt"
	"go/ast"
	"go/parser"
	"go/token"
	"strings"
)

type MetaDecl struct {
	Name string `json:"name"`
	Kind string `json:"kind"` // "ident" | "expr"
}

// Vector is one abstract test input for the rewrite family.
type Vector struct {
	ID    string     `json:"id"`
	Prop  []string   `json:"prop"`
	Class string     `json:"class"` // expr | stmts | gendecl | funcdecl
	Metas []MetaDecl `json:"metas"`
	Pat   *Term      `json:"pat"`
	Plus  *Term      `json:"plus"`
	// Exactly one of Src / Subject / Subjects is used.
	Src      string  `json:"src,omitempty"`      // complete Go source of the target file
	Subjects []*Term `json:"subjects,omitempty"` // expression (or statement) terms to embed in a template
	Tmpl     string  `json:"tmpl,omitempty"`     // template name for Subjects
	Note     string  `json:"note,omitempty"`
	Layout   string  `json:"layout,omitempty"` // minus-first (default) | plus-first | ctx
}

// replaceDots rewrites every "..." that is an elision (not followed by an
// identifier / type on the same line, not preceded by an identifier) into a
// placeholder identifier VDOTS<n>. Vector texts only use elisions, variadic
// "..." are written as "x..." or "...T" and are left alone.
func replaceDots(src string) string {
	var sb strings.Builder
	n := 0
	for i := 0; i < len(src); {
		if strings.HasPrefix(src[i:], "...") {
			prevIdent := i > 0 && isIdentByte(src[i-1])
			nextIdent := i+3 < len(src) && (isIdentByte(src[i+3]) || src[i+3] == '[' || src[i+3] == '*')
			if !prevIdent && !nextIdent {
				n++
				fmt.Fprintf(&sb, "%sd%d", dotsPrefix, n)
				i += 3
				continue
			}
			sb.WriteString("...")
			i += 3
			continue
		}
		sb.WriteByte(src[i])
		i++
	}
	return sb.String()
}

func isIdentByte(c byte) bool {
	return c == '_' || c >= '0' && c <= '9' || c >= 'a' && c <= 'z' || c >= 'A' && c <= 'Z'
}

// PatternFromText parses pattern text of the given class into a term.
func PatternFromText(class, text string, metas []MetaDecl) (*Term, error) {
	src := replaceDots(text)
	mk := map[string]string{}
	for _, m := range metas {
		mk[m.Name] = m.Kind
	}
	var t *Term
	switch class {
	case "expr":
		e, err := parser.ParseExpr(src)
		if err != nil {
			return nil, err
		}
		t = Alpha(e)
	case "stmts":
		f, err := parser.ParseFile(token.NewFileSet(), "p.go", "package p\nfunc _() {\n"+src+"\n}", 0)
		if err != nil {
			return nil, err
		}
		body := f.Decls[0].(*ast.FuncDecl).Body
		l := []*Term{DotsTerm("pre")}
		for _, s := range body.List {
			l = append(l, Alpha(s))
		}
		l = append(l, DotsTerm("post"))
		t = &Term{K: "@stmts", S: []*Slot{lslot("Stmt", l)}}
	case "gendecl", "funcdecl":
		f, err := parser.ParseFile(token.NewFileSet(), "p.go", "package p\n"+src, 0)
		if err != nil {
			return nil, err
		}
		if len(f.Decls) != 1 {
			return nil, fmt.Errorf("want one declaration")
		}
		t = Alpha(f.Decls[0])
	default:
		return nil, fmt.Errorf("unknown class %q", class)
	}
	return holes(t, mk), nil
}

// holes turns placeholder identifiers into pattern nodes.
func holes(t *Term, metas map[string]string) *Term {
	switch t.K {
	case "Ident":
		name := t.S[1].A
		if k, ok := metas[name]; ok {
			return MetaTerm(name, k)
		}
		if strings.HasPrefix(name, dotsPrefix) {
			return DotsTerm(strings.TrimPrefix(name, dotsPrefix))
		}
		return t
	case "ExprStmt":
		if x := t.S[0].V[0]; x.K == "Ident" && strings.HasPrefix(x.S[1].A, dotsPrefix) {
			return DotsTerm(strings.TrimPrefix(x.S[1].A, dotsPrefix))
		}
	case "Field":
		// Names, Type, Tag
		if len(t.S[0].V) == 0 && t.S[1].T == "n" && t.S[2].T == "z" {
			if x := t.S[1].V[0]; x.K == "Ident" && strings.HasPrefix(x.S[1].A, dotsPrefix) {
				return DotsTerm(strings.TrimPrefix(x.S[1].A, dotsPrefix))
			}
		}
	case "ForStmt":
		// For, Init, Cond, Post, Body
		if t.S[1].T == "z" && t.S[3].T == "z" && t.S[2].T == "n" {
			if x := t.S[2].V[0]; x.K == "Ident" && strings.HasPrefix(x.S[1].A, dotsPrefix) {
				return ForDotsTerm(strings.TrimPrefix(x.S[1].A, dotsPrefix), holes(t.S[4].V[0], metas))
			}
		}
	}
	for _, s := range t.S {
		for j := range s.V {
			s.V[j] = holes(s.V[j], metas)
		}
	}
	return t
}

// PatternText renders a pattern term as the Go-with-holes text of one side
// of a patch.
func PatternText(class string, t *Term) string {
	if class == "stmts" {
		l := t.S[0].V
		return strings.TrimRight(RenderStmts(l[1:len(l)-1]), "\n")
	}
	return strings.TrimRight(Render(t), "\n")
}

// PatchText renders a complete single-change patch.
func PatchText(v *Vector) string {
	var sb strings.Builder
	sb.WriteString("@@\n")
	for _, m := range v.Metas {
		k := "expression"
		if m.Kind == "ident" {
			k = "identifier"
		}
		fmt.Fprintf(&sb, "var %s %s\n", m.Name, k)
	}
	sb.WriteString("@@\n")
	minus := strings.Split(PatternText(v.Class, v.Pat), "\n")
	plus := strings.Split(PatternText(v.Class, v.Plus), "\n")
	switch v.Layout {
	case "plus-first":
		for _, l := range plus {
			sb.WriteString("+" + l + "\n")
		}
		for _, l := range minus {
			sb.WriteString("-" + l + "\n")
		}
	case "ctx":
		// common prefix and suffix lines become context lines
		p := 0
		for p < len(minus) && p < len(plus) && minus[p] == plus[p] {
			p++
		}
		s := 0
		for s < len(minus)-p && s < len(plus)-p && minus[len(minus)-1-s] == plus[len(plus)-1-s] {
			s++
		}
		for _, l := range minus[:p] {
			sb.WriteString(" " + l + "\n")
		}
		for _, l := range minus[p : len(minus)-s] {
			sb.WriteString("-" + l + "\n")
		}
		for _, l := range plus[p : len(plus)-s] {
			sb.WriteString("+" + l + "\n")
		}
		for _, l := range minus[len(minus)-s:] {
			sb.WriteString(" " + l + "\n")
		}
	default:
		for _, l := range minus {
			sb.WriteString("-" + l + "\n")
		}
		for _, l := range plus {
			sb.WriteString("+" + l + "\n")
		}
	}
	return sb.String()
}
