package main

// Building abstract patterns from text (for hand-written and corpus vectors)
// and rendering abstract patterns into patch files.

import (
	"fmt"
	"go/ast"
	"go/parser"
	"go/token"
	"regexp"
	"strings"
)

type MetaDecl struct {
	Name string `json:"name"`
	Kind string `json:"kind"` // "ident" | "expr"
}

// Vector is one abstract test input for the rewrite family.
type Vector struct {
	ID    string     `json:"id"`
	Prop  []string   `json:"prop"`
	Class string     `json:"class"` // expr | stmts | gendecl | funcdecl
	Metas []MetaDecl `json:"metas"`
	Pat   *Term      `json:"pat"`
	Plus  *Term      `json:"plus"`
	// Exactly one of Src / Subject / Subjects is used.
	Src      string  `json:"src,omitempty"`      // complete Go source of the target file
	Subjects []*Term `json:"subjects,omitempty"` // expression (or statement) terms to embed in a template
	Tmpl     string  `json:"tmpl,omitempty"`     // template name for Subjects
	UseSubj  bool    `json:"use_subjects,omitempty"` // take Subjects from the -subjects file
	Stride   int     `json:"subj_stride,omitempty"`  // use every Stride-th subject ...
	Offset   int     `json:"subj_offset,omitempty"`  // ... starting at Offset
	Note     string  `json:"note,omitempty"`
	Layout   string  `json:"layout,omitempty"` // minus-first (default) | plus-first | ctx
	Header   string  `json:"header,omitempty"` // patch lines (package / import clauses) placed before the pattern
	Guard    string  `json:"guard,omitempty"`  // "fail": the guard in Header does not hold for the target file
}

// replaceDots rewrites every "..." that is an elision (not followed by an
// identifier / type on the same line, not preceded by an identifier) into a
// placeholder identifier VDOTS<n>. Vector texts only use elisions, variadic
// "..." are written as "x..." or "...T" and are left alone.
func replaceDots(src string) string {
	var sb strings.Builder
	n := 0
	for i := 0; i < len(src); {
		if strings.HasPrefix(src[i:], "...") {
			prevIdent := i > 0 && isIdentByte(src[i-1])
			nextIdent := i+3 < len(src) && (isIdentByte(src[i+3]) || src[i+3] == '[' || src[i+3] == '*')
			if !prevIdent && i+3 < len(src) && src[i+3] == '#' {
				// "...#name": an elision with an explicit name (the same elision on both sides of a vector)
				j := i + 4
				for j < len(src) && isIdentByte(src[j]) {
					j++
				}
				fmt.Fprintf(&sb, "%s%s", dotsPrefix, src[i+4:j])
				i = j
				continue
			}
			if !prevIdent && !nextIdent {
				n++
				fmt.Fprintf(&sb, "%sd%d", dotsPrefix, n)
				i += 3
				continue
			}
			sb.WriteString("...")
			i += 3
			continue
		}
		sb.WriteByte(src[i])
		i++
	}
	return sb.String()
}

var namedDotsRe = regexp.MustCompile(`(`+dotsPrefix+`\w+)(\s*[,)])`)

func isIdentByte(c byte) bool {
	return c == '_' || c >= '0' && c <= '9' || c >= 'a' && c <= 'z' || c >= 'A' && c <= 'Z'
}

// PatternFromText parses pattern text of the given class into a term.
func PatternFromText(class, text string, metas []MetaDecl) (*Term, error) {
	src := replaceDots(text)
	mk := map[string]string{}
	for _, m := range metas {
		mk[m.Name] = m.Kind
	}
	var t *Term
	switch class {
	case "expr":
		e, err := parser.ParseExpr(src)
		if err != nil && strings.Contains(err.Error(), "mixed named and unnamed") {
			// an elision in a named parameter list: give the placeholder a name
			e, err = parser.ParseExpr(namedDotsRe.ReplaceAllString(src, "_ $1$2"))
		}
		if err != nil {
			return nil, err
		}
		t = Alpha(e)
	case "stmts":
		f, err := parser.ParseFile(token.NewFileSet(), "p.go", "package p\nfunc _() {\n"+src+"\n}", 0)
		if err != nil {
			return nil, err
		}
		body := f.Decls[0].(*ast.FuncDecl).Body
		l := []*Term{DotsTerm("pre")}
		for _, s := range body.List {
			l = append(l, Alpha(s))
		}
		l = append(l, DotsTerm("post"))
		t = &Term{K: "@stmts", S: []*Slot{lslot("Stmt", l)}}
	case "gendecl", "funcdecl":
		f, err := parser.ParseFile(token.NewFileSet(), "p.go", "package p\n"+src, 0)
		if err != nil && strings.Contains(err.Error(), "mixed named and unnamed") {
			// an elision in a named parameter list: give the placeholder a name
			f, err = parser.ParseFile(token.NewFileSet(), "p.go", "package p\n"+namedDotsRe.ReplaceAllString(src, "_ $1$2"), 0)
		}
		if err != nil {
			return nil, err
		}
		if len(f.Decls) != 1 {
			return nil, fmt.Errorf("want one declaration")
		}
		t = Alpha(f.Decls[0])
	default:
		return nil, fmt.Errorf("unknown class %q", class)
	}
	return holes(t, mk), nil
}

// holes turns placeholder identifiers into pattern nodes.
func holes(t *Term, metas map[string]string) *Term {
	switch t.K {
	case "Ident":
		name := t.S[1].A
		if k, ok := metas[name]; ok {
			return MetaTerm(name, k)
		}
		if strings.HasPrefix(name, dotsPrefix) {
			return DotsTerm(strings.TrimPrefix(name, dotsPrefix))
		}
		return t
	case "ExprStmt":
		if x := t.S[0].V[0]; x.K == "Ident" && strings.HasPrefix(x.S[1].A, dotsPrefix) {
			return DotsTerm(strings.TrimPrefix(x.S[1].A, dotsPrefix))
		}
	case "Field":
		// Names, Type, Tag
		if (len(t.S[0].V) == 0 || len(t.S[0].V) == 1 && t.S[0].V[0].K == "Ident" && t.S[0].V[0].S[1].A == "_") &&
			t.S[1].T == "n" && t.S[2].T == "z" {
			if x := t.S[1].V[0]; x.K == "Ident" && strings.HasPrefix(x.S[1].A, dotsPrefix) {
				return DotsTerm(strings.TrimPrefix(x.S[1].A, dotsPrefix))
			}
		}
	case "FieldList":
		// Opening, List, Closing.  "func(..., b int)" parses the placeholder as one more
		// name of the field b: split such fields into the elision and the remaining names.
		out := []*Term{}
		for _, f := range t.S[1].V {
			if f.K != "Field" || len(f.S[0].V) < 2 {
				out = append(out, f)
				continue
			}
			var names []*Term
			flush := func() {
				if len(names) > 0 {
					nf := &Term{K: "Field", S: []*Slot{lslot("Ident", names), f.S[1], f.S[2]}}
					out = append(out, nf)
					names = nil
				}
			}
			for _, n := range f.S[0].V {
				if n.K == "Ident" && strings.HasPrefix(n.S[1].A, dotsPrefix) {
					flush()
					out = append(out, DotsTerm(strings.TrimPrefix(n.S[1].A, dotsPrefix)))
				} else {
					names = append(names, n)
				}
			}
			flush()
		}
		t.S[1].V = out
	case "ForStmt":
		// For, Init, Cond, Post, Body
		if t.S[1].T == "z" && t.S[3].T == "z" && t.S[2].T == "n" {
			if x := t.S[2].V[0]; x.K == "Ident" && strings.HasPrefix(x.S[1].A, dotsPrefix) {
				return ForDotsTerm(strings.TrimPrefix(x.S[1].A, dotsPrefix), holes(t.S[4].V[0], metas))
			}
		}
	}
	for _, s := range t.S {
		for j := range s.V {
			s.V[j] = holes(s.V[j], metas)
		}
	}
	return t
}

// PatternText renders a pattern term as the Go-with-holes text of one side
// of a patch.
func PatternText(class string, t *Term) string {
	if class == "stmts" {
		l := t.S[0].V
		return strings.TrimRight(RenderStmts(l[1:len(l)-1]), "\n")
	}
	return strings.TrimRight(Render(t), "\n")
}

// PatchText renders a complete single-change patch.
func PatchText(v *Vector) string {
	var sb strings.Builder
	sb.WriteString("@@\n")
	for _, m := range v.Metas {
		k := "expression"
		if m.Kind == "ident" {
			k = "identifier"
		}
		fmt.Fprintf(&sb, "var %s %s\n", m.Name, k)
	}
	sb.WriteString("@@\n")
	sb.WriteString(v.Header)
	minus := strings.Split(PatternText(v.Class, v.Pat), "\n")
	plus := strings.Split(PatternText(v.Class, v.Plus), "\n")
	switch v.Layout {
	case "plus-first":
		for _, l := range plus {
			sb.WriteString("+" + l + "\n")
		}
		for _, l := range minus {
			sb.WriteString("-" + l + "\n")
		}
	case "ctx", "ctx0":
		// wrapped rendering, common lines (LCS) become context lines so that
		// every elision on a context line keeps its (line, column) on both sides
		minus, plus = wrappedLines(v.Class, v.Pat), wrappedLines(v.Class, v.Plus)
		for _, l := range lcsDiff(minus, plus) {
			// ctx0: context lines without the space prefix (it is only white space
			// in front of the code), unless the code would then start with a marker
			if v.Layout == "ctx0" && strings.HasPrefix(l, " ") && len(l) > 1 && !strings.ContainsAny(l[1:2], "-+@# \t") {
				l = l[1:]
			}
			sb.WriteString(l + "\n")
		}
	default:
		for _, l := range minus {
			sb.WriteString("-" + l + "\n")
		}
		for _, l := range plus {
			sb.WriteString("+" + l + "\n")
		}
	}
	return sb.String()
}

// wrappedLines renders a call / composite literal pattern with one element
// per line; other patterns are rendered as usual.
func wrappedLines(class string, t *Term) []string {
	if class == "expr" {
		switch t.K {
		case "CallExpr":
			out := []string{strings.TrimSpace(Render(t.S[0].V[0])) + "("}
			for _, a := range t.S[2].V {
				out = append(out, "\t"+strings.TrimSpace(Render(a))+",")
			}
			return append(out, ")")
		case "CompositeLit":
			out := []string{strings.TrimSpace(Render(t.S[0].V[0])) + "{"}
			for _, a := range t.S[2].V {
				out = append(out, "\t"+strings.TrimSpace(Render(a))+",")
			}
			return append(out, "}")
		}
	}
	return strings.Split(PatternText(class, t), "\n")
}

// lcsDiff returns unified-diff style lines (' ', '-', '+' prefixed).
func lcsDiff(a, b []string) []string {
	n, m := len(a), len(b)
	l := make([][]int, n+1)
	for i := range l {
		l[i] = make([]int, m+1)
	}
	for i := n - 1; i >= 0; i-- {
		for j := m - 1; j >= 0; j-- {
			if a[i] == b[j] {
				l[i][j] = l[i+1][j+1] + 1
			} else if l[i+1][j] >= l[i][j+1] {
				l[i][j] = l[i+1][j]
			} else {
				l[i][j] = l[i][j+1]
			}
		}
	}
	var out, pm, pp []string
	flush := func() {
		out = append(out, pm...)
		out = append(out, pp...)
		pm, pp = nil, nil
	}
	i, j := 0, 0
	for i < n || j < m {
		switch {
		case i < n && j < m && a[i] == b[j]:
			flush()
			out = append(out, " "+a[i])
			i++
			j++
		case i < n && (j == m || l[i+1][j] >= l[i][j+1]):
			pm = append(pm, "-"+a[i])
			i++
		default:
			pp = append(pp, "+"+b[j])
			j++
		}
	}
	flush()
	return out
}
