#!/usr/bin/env python3
"""Regenerates MANIFEST.json from the table below (single source of truth for the interface)."""
import json, os, subprocess
V = os.path.dirname(os.path.dirname(os.path.abspath(__file__)))

TRUST = "go/parser, go/printer and go/format as observers; the harness abstraction alpha (self-checked by round trip); TLC evaluating the TLA+ P-layer; bounds as stated in the evidence file"

CHECKS = {
 "C01": dict(level="model_checking", ref="5/C01",
   text="TLC checks I=>P exhaustively over a bounded universe of (pattern, replacement, subject) triples (spec/MCRewrite.tla), the same universe is replayed into the real patch.Parse/File.Apply and every recorded execution (abstracted input and re-parsed output) is judged by the P-layer relation Judge of spec/Pattern.tla in TLC (spec/TraceRewrite.tla): every differing position must be an instance, every outermost admissible instance must be rewritten. A near-miss corpus (operators, literals, names, argument counts, variadic, alias '=', channel direction, grouped declarations, statement shapes) and whole files with rich syntax are judged by the same relation.",
   technique="TLA+ reference semantics (Pattern.tla) + TLC design check + TLC trace validation of replayed vectors"),
 "C02": dict(level="model_checking", ref="5/C02",
   text="Exhaustive bounded universe of patterns with repeated metavariables of both kinds and undeclared look-alike names against equal / almost-equal / different fillers: I=>P in TLC, then replay into the real code and judgement of each recorded execution by the P-layer (binding consistency is part of Instance); the same patterns on whole files exercise hundreds of match attempts per file (no leakage between attempts).",
   technique="TLA+ reference semantics + TLC design check + trace validation"),
 "C03": dict(level="model_checking", ref="5/C03",
   text="For every recorded execution TLC recomputes the binding of every site from the input and requires the output at that site to be the '+' pattern instantiated with it (SubstRel), with per-site bindings (every subject embedded at nine syntactic positions of one file) and slot admissibility taken from the static go/ast slot types.",
   technique="TLA+ reference semantics + TLC design check + trace validation"),
 "C04": dict(level="model_checking", ref="5/C04",
   text="Exhaustive: every pattern list over {a,b,x,...} with at least one elision against every list over {a,b} within the bounds, realised in call arguments, composite-literal elements, statement blocks, parameter lists and struct field lists; patterns with several elisions and repeated metavariables (universe multi); TLC checks the greedy I-machine against the existential P definition (the known incompleteness is pinned as a known finding), every pattern is replayed into the real code and judged (match <=> some choice of runs; runs reproduced in place, complete, in order; leftmost-shortest witness).",
   technique="TLA+ list-matching semantics (existential vs greedy) + exhaustive TLC enumeration + trace validation"),
 "C05": dict(level="model_checking", ref="5/C05",
   text="Sampled universe patterns and the near-miss corpus patterns are applied to whole files with rich surrounding syntax; TLC judges every recorded (input, output) pair: kind, attributes and child structure must be identical on every path that is not at or below an instance (statement sites keep the exact prefix and suffix).",
   technique="TLA+ reference semantics + trace validation on corpus files"),
}

RUNTRUST = "strace (file-mutating system calls, fault injection), prlimit, lstat/SHA-256 tree digests, go/parser and the strict diff applier of harness/api.go as observers; the abstraction of stdout/stderr into per-file parts (lib/fam_run.py: unrecognised output fails the predicates); TLC evaluating Pipeline.tla / TraceModes.tla; bounds as stated in the evidence file"
CHECKS.update({
 "C06": dict(level="model_checking", ref="5/C06", note=RUNTRUST,
   text="Pipeline.tla models mainCmd.Run as a state machine over file kinds, flags and faults; TLC checks the C06 predicates on every reachable state of every scenario in the bounds. Scenarios containing unmatched files (seven layouts incl. CRLF, non-gofmt, odd comments, build tags, near-misses) are run through the real binary; the stage events of the verif hooks are validated step by step against the model's actions (TracePipeline.tla) and the C06 predicates are evaluated by TLC on the observed disk / stdout / stderr / exit / touched-files state.",
   technique="TLA+ pipeline model + TLC + trace validation of hook events and black-box observations"),
 "C07": dict(level="model_checking", ref="5/C07", note=RUNTRUST,
   text="TLC checks 'emitted content parses' and 'unparseable result is reported' on the pipeline model for all flag combinations; scenarios with a change whose result does not parse are replayed into the real binary and judged on the observed state; additionally ill-fitting replacements (type positions, restricted slots) are run in write, print, diff and API mode with and without --skip-import-processing and TLC (TraceModes.tla) requires every emitted content to parse (go/parser) and every failure to be reported without emitting.",
   technique="TLA+ pipeline model + trace validation; mode relation checked by TLC on recorded runs"),
 "C12": dict(level="model_checking", ref="5/C12", note=RUNTRUST,
   text="'No file-mutating system call and unchanged tree digest in dry-run modes' and 'descriptions only on stderr and only for files a described change applied to' are invariants of Pipeline.tla (TLC, all scenarios in the bounds) and are evaluated on strace + digest observations of real runs over all 24 dry-run flag combinations; the agreement of written / printed / diff-applied / API bytes is a TLA+ relation (TraceModes.tla) evaluated on recorded runs of each case in every mode.",
   technique="TLA+ pipeline model + strace observation + mode-agreement relation evaluated by TLC"),
 "C16": dict(level="fault_enumeration", ref="5/C16", note=RUNTRUST,
   text="TLC enumerates every fault placement (unreadable target, file-size limit, failing rename, kill before the rename) at every file of runs of up to 2 (thorough: 3) files with every kind of per-file failure, and checks atomicity at every instant plus the reporting predicates on the model; the same scenarios are realised on the unmodified binary (strace -e inject, prlimit --fsize) and the predicates are evaluated on what is on disk and on stderr afterwards.",
   technique="TLA+ pipeline model with fault actions + TLC + fault injection on the real binary + trace validation"),
})

CHECKS.update({
 "C15": dict(level="model_checking", ref="5/C15", note=RUNTRUST,
   text="Discover.tla defines the reference set (P) and a transcription of the walk with pruning, de-duplication and sorting (I); TLC checks I = P for every tree of depth 2 with up to 2 entries per directory over a 6-name alphabet crossed with every argument list of up to 2 entries (about 590 000 scenarios). A seeded sample of scenarios with longer, overlapping and repeated argument lists is materialised on disk and run with a non-idempotent patch and -v; TLC (TraceDiscover.tla) judges the observed changed-file set, double processing, -v order and collateral modifications against the reference set.",
   technique="TLA+ reference set vs walk transcription, exhaustive TLC enumeration + trace validation of materialised trees"),
 "C18": dict(level="model_checking", ref="5/C18", note=RUNTRUST,
   text="Generated.tla enumerates header shapes (detached comments, package comment, comment after the clause and in the body; 7 text classes incl. near-miss spellings; line/block style) and classifies each by the statement (marked / unmarked / unconstrained); TLC checks the code's predicate against the constrained classes. Every judged header x flag on/off x {write, print, diff} is run through the real binary and judged with the C18 predicates of Pipeline.tla on the observed state (protected: untouched, nothing printed; plain: processed exactly as without the flag).",
   technique="TLA+ header classification + pipeline model + trace validation"),
})

CHECKS.update({
 "C19": dict(level="model_checking", ref="5/C19",
   note="patch texts rendered from the token-level universe; diagnostic positions extracted from the error text with <file>:<line>:<col>; TLC evaluating Section.tla; bounds as stated in the evidence file",
   text="Section.tla models patches at line/token level with column arithmetic; P = position of the offending token, I = the sectioner's offset arithmetic (line offsets, scratch buffer of the meta section, offset->(line, column) table). TLC checks I = P for every patch of up to 2 changes x 5 comment/blank prefixes x 3 header forms x 4 meta sections x 7 fault kinds at every change and meta line (about 370 000 placements); a seeded sample plus 3-change variants is rendered to text, parsed by the real patch.Parse under three patch file names, and TLC (TraceSection.tla) requires rejection, a diagnostic naming the patch file, and line:column equal to the recomputed offending-token position.",
   technique="TLA+ line/token model of the sectioner with column arithmetic + exhaustive TLC check + trace validation of real diagnostics"),
})

CHECKS.update({
 "C13": dict(level="model_checking", ref="5/C13",
   note="layout transformations implemented on patch text (lib/prop_c13.py); results compared as syntax terms of harness/alpha.go; the real sectioner observed through the verif export patch.VerifSplit; TLC evaluating Splitter.tla",
   text="Splitter.tla transcribes the line-by-line sectioner (comment skipping, description = '#' lines directly above the header, blank lines before a header) and TLC checks it against the declarative structure for every well-formed file of up to 7 line kinds; each such file is rendered, cut by the real sectioner and compared by TLC. End to end, every testdata patch x input is run with seeded layout variants (compositions of up to 3 of: comment lines, blank lines, naming the change, renaming metavariables, regrouping/reordering/;-joining declarations, re-spacing both sides, context line <-> identical -/+ pair) and TLC requires syntactically identical results.",
   technique="TLA+ sectioner machine vs declarative structure (exhaustive) + metamorphic trace validation judged by TLC"),
})

APITRUST = "go/parser as observer of inputs and outputs (harness ops impobs / histobs); rendering of the TLA+ scenarios to patch text and Go source in lib/; TLC evaluating the TLA+ predicates; bounds as stated in the evidence file"
CHECKS.update({
 "C09": dict(level="model_checking", ref="5/C09", note=APITRUST + "; hook events `change` of the verif build for the order of Match calls",
   text="History.tla models the apply loop of the command (returns at the first failing replacement) and of the library (continues, reports at the end) as a state machine over abstract files (package, sequence of calls) and change sequences (renames with optional package guard / package rename, failing steps); TLC checks 'result = chain of single-change runs, or failure and the original file', 'a non-matching change is a no-op', strict order and termination for every file and sequence in the bounds. TLC-chosen scenarios of four classes (a change matches only what an earlier one produced / no longer matches what an earlier one removed / a step fails / plain) are delivered through seven routes (one patch file, one -p per change, -P list, stdin, -p/-P mixed, library API, chain of single-change runs re-reading the file) and TLC (TraceHistory.tla) judges every route's observed result against the chain semantics and the recorded Match events against the model's log.",
   technique="TLA+ state machine of the apply loop vs chain semantics (TLC) + trace validation of hook events and of seven delivery routes"),
 "C10": dict(level="model_checking", ref="5/C10", note=APITRUST,
   text="Imports.tla holds the statement's guard table (P: unnamed matches unnamed, literal name matches that name, identifier metavariable matches any name or none; package clause) and a transcription of FileMatcher.Match / ImportMatcher.Match with the metavariable store (I); TLC checks I <=> P for every cell: package clause {none, same, other} x up to 2 guarded imports x 6 patch-side forms x every file importing each of 3 paths absent / unnamed / same name / other name / dot / blank. The cells are rendered (4 import layouts, plain or package-qualified code pattern that always occurs), run through patch.Parse / File.Apply, observed with go/parser and judged by TLC (TraceImports.tla): rewritten <=> all guards hold, and a failed guard leaves the imports alone. Two-change patch files in which the first change adds / deletes / renames imports and the second is guarded by the affected paths are judged on the observed result of the first change alone.",
   technique="TLA+ guard table vs transcription of engine/import.go (exhaustive TLC check) + trace validation of replayed cells and two-change histories"),
 "C11": dict(level="model_checking", ref="5/C11", note=APITRUST,
   text="Imports.tla states what a change may do to the import set (unmentioned imports kept, nothing unmentioned added, '+' imports present under the literal / captured name, '-' imports gone when their name is no longer used or is provided by an added import, matched imports kept while used, nothing invented) and transcribes ImportsReplacer.Replace / Cleanup with astutil.AddNamedImport / DeleteNamedImport; TLC checks the transcription against the statement for 2.4 million scenarios (change of up to 2 import lines x file x set of names still in use). TLC-chosen scenarios are rendered (several blocks, commented specs, plain and chained selector uses, shadowing decoys), run through the real code, the imports and remaining uses read off the output with go/parser, and every record judged by TLC.",
   technique="TLA+ import-set relation vs transcription of engine/import.go (exhaustive TLC check) + trace validation"),
})

CHECKS.update({
 "C14": dict(level="model_checking", ref="5/C14",
   note="the gates of the verif build as scheduling points; goroutine identity from runtime.Stack in the harness scheduler; byte comparison with solo results; patch.VerifProgramHash (reflection) for immutability; Go race detector for the free-running part; lib/fam_run.py abstraction of per-file outcomes for the command half; TLC evaluating Concurrent.tla / Indep.tla",
   text="Concurrent.tla models concurrent File.Apply calls on one parsed patch as processes advancing through the gate points of patch/gopatch.go (which points a call passes is a function of its source kind: both / first / second / no change matches, parse error, failing replacement) over a shared FileSet and an immutable program; TLC checks result-as-alone, non-interference, immutability and termination over every interleaving and prints each interleaving; every interleaving (quick: a seeded sample) is replayed on real goroutines through the gates, the recorded passages are validated action by action against the model (TraceConcurrent.tla), each call's bytes / error are compared with the same source applied alone and a deep hash of the compiled program is taken after every step. Sequential histories and free-running goroutines under the race detector go through the same trace spec. Command half: Indep.tla enumerates sequences of 2..3 files of 6 kinds x argument orders x 3 modes; each run is executed twice and TLC compares every file's outcome with its solo run.",
   technique="TLA+ interleaving model + TLC-enumerated schedules replayed through scheduler gates on real goroutines + trace validation; TLC-enumerated multi-file runs judged against solo runs"),
})
CHECKS.update({
 "C17": dict(level="model_checking", ref="5/C17",
   note="harness/cmtobs.go (go/parser, go/format) as the observer that attributes comments to declarations; pairing of input and output declarations by syntax hash (lib/prop_c17.py); rendering of the slot universe; TLC evaluating Comments.tla; go/printer's reaction to merged lines is not modelled",
   text="Comments.tla defines (P) what must hold of the comments of gofmt(input) and output as attributed to top-level declarations by an independent observer - every declaration with unchanged syntax keeps exactly its doc / inner / trailing comments in order, header and package-clause comments are kept, no comment text becomes more frequent - and (I) the region arithmetic of astdiff.walkSlice with the comment clamping, for which TLC checks on every layout of up to 2 (thorough: 3) items with optional leading / trailing comments and gaps that replacing one item never deletes a comment associated with another. TLC draws files from a slot universe (declaration kind x doc style x inner comment x trailing comment x free-standing comment x touch kind, 16 headers; every (touched, untouched neighbour) pair in both orders and every header before a touched first declaration), which are rendered with unique comment texts, patched through the library API and the command with expression / statement-deleting / signature-changing / kind-changing / value-declaration changes (several per patch), and judged record by record by TLC; hand-written comment-heavy files x patches go through the same judgement.",
   technique="TLA+ region model of astdiff (TLC, exhaustive layouts) + TLA+ predicates over observer output evaluated by TLC on TLC-drawn files (trace validation)"),
})
CHECKS.update({
 "C08": dict(level="model_checking", ref="5/C08",
   note="watchdogs in the harness (5 s per augmenter call, 10 s per Parse / Apply call, 20 s per command run) define 'promptly'; a worker process that dies is bisected down to the input; the concretisation of token classes; TLC checking Finder.tla and evaluating TraceCrash.tla. Parts (ii) and (iii) are exploration with the specification as seed generator and outcome monitor only",
   text="Finder.tla is a PlusCal transcription of the pgo augmenter's token scanner (find.go: pkg, imports, topLevelDecl, funcDecl with the receiver loop, function, fieldList, ident, ellipsis; the cursor saturates at EOF like go/scanner); TLC checks termination under weak fairness plus two invariants for every token string of length <= 4 over 12 classes (thorough: 16 classes, and length <= 5 over 12) and prints the augmentations the model finds. Every string is concretised and run through the real augmenter and through patch.Parse on both sides of a patch under a watchdog; the outcome (ok / error with diagnostic, never panic / timeout / killed) is judged by TLC (TraceCrash.tla) and the augmentations are compared with the model's (drift). The same monitor judges grammar-generated ill-typed patches (a metavariable of either kind in 44 slot templates x 18 binding kinds, on the '+' and on the '-' side) and seeded truncations / token / byte / line mutations of the testdata and example patches crossed with Go files, a sample of them through the command.",
   technique="PlusCal/TLA+ model of the scanner with termination checked by TLC + replay of every token string into the real code + TLC outcome monitor over generated ill-typed and mutated patches"),
})
ENGINE_OF = {"C14": "tla-concurrent", "C17": "tla-comments", "C08": "tla-finder"}

NOT_YET = {
}

for _p in ("C01", "C02", "C03", "C04", "C05"):
    ENGINE_OF[_p] = "tla-rewrite"
for _p in ("C13", "C19"):
    ENGINE_OF[_p] = "tla-section"
for _p in ("C06", "C07", "C12", "C15", "C16", "C18"):
    ENGINE_OF[_p] = "tla-run"
for _p in ("C10", "C11"):
    ENGINE_OF[_p] = "tla-imports"
ENGINE_OF["C09"] = "tla-history"


# what was added to the coverage after the texts above were written (DESIGN.md section 12 has the history)
ADDED = {
 "C19": " A bad change name after a two-byte letter (columns count bytes); declarations cut short ('var', 'var x,'), where the offending token is the next token or the end of the section.",
 "C14": " Sequential and parallel histories also over two import-editing patches (import named by a metavariable over named / unnamed files; two imports deleted from commented blocks).",
 "C13": " T10: an empty line written as a lone '-' / '+' pair; a context line inside a raw string literal (known finding).",
 "C11": " The parsed patch may have been applied to other files before the subject (prior); repeated applications must return the same bytes; import blocks with leading comment lines.",
 "C10": " The parsed patch may have been applied to other files before the subject (prior) and is applied to the subject repeatedly (repeat).",
 "C06": " Files whose only occurrences of a pattern are at places that cannot hold the replacement are files in which nothing matches.",
 "C05": " Bare and labelled break / continue side by side.",
 "C03": " A part of the import universe is replayed for '+' code that calls through a metavariable bound by an import line only (TraceImports: C03_PlusUnderCapturedName).",
 "C01": " Also replayed: the interaction and near-miss corpora (precedence contexts, optional positions such as branch labels, code that begins with a sign, non-expressions offered to expression metavariables). Clauses of switch statements with and without a list (an elision for the list of a case clause), bare and labelled branch statements.",
 "C04": " Also replayed: moved elements, context-line elisions between one-sided ones, late-failing candidates over long lists, a change with more than a dozen elisions; load errors of corpus vectors are violations. An argument elision next to a spread argument.",
 "C07": " The library half judges what Apply returns also for '+' sides that cannot be printed. In-place runs whose write is refused by a file-size limit: a run that reports success leaves no file empty or cut short.",
 "C08": " Resource targets through the command under an address-space limit and a 30 s watchdog: //line directives with huge numbers, nesting depth 6..26 with a site on every level, lists of 2000 / 20000 elements, six elisions against 30..120 equal elements. Repeated metavariables between several elisions over candidates that differ (known finding).",
 "C09": " The abstract file holds nested call terms (changes with repeated metavariables and literal arguments; class 'inner': code rewritten inside a compared place); hand-written sequences outside the rule universe are judged against the observed chain of single-change runs. Mirrored inner templates: the repeated metavariable is bound by original code and compared with generated code.",
 "C12": " Mode agreement also over files with very long lines, without a final newline, with comments inside one-line rewrites; the dry modes' output for a matching file is judged next to failing files. One file under two hard-linked names; standard output carries only what the dry modes emit (-v lines belong to standard error).",
 "C15": " Arguments also reach their target through a symbolic link to the tree and through redundant absolute spellings; Discover.tla models the key by which files are told apart. The working directory may have been entered through a symbolic link (Discover.tla: CwdMode, cwdvia).",
 "C16": " Further faults: a patch list that cannot be read (stage `load`), standard output that cannot be written to, runs with 255..768 failing files.",
 "C17": " Also: expression sites that gain a token which was absent, files without any comment with comments written in the patch, a kept import with comments.",
 "C18": " Also runs of two and three files with generated files next to each other. Files named like generator output (*_gen.go, *.pb.go) are ordinary files.",
}


def main():
    checks = []
    for pid in sorted(CHECKS):
        c = dict(CHECKS[pid])
        c["text"] = c["text"] + ADDED.get(pid, "")
        checks.append({
            "property_id": pid,
            "quick_cmd": "./check %s quick" % pid,
            "thorough_cmd": "./check %s thorough" % pid,
            "evidence_file": "evidence/%s.json" % pid,
            "replay_cmd_template": "./check %s quick --replay {path}" % pid,
            "engine": ENGINE_OF[pid],
            "level_claimed": {"category": c["level"], "text": c["text"], "design_ref": "DESIGN.md section " + c["ref"]},
            "level_note": c.get("note", TRUST),
            "technique": c["technique"],
        })
    props = [json.loads(l)["id"] for l in open(os.path.join(V, "properties.jsonl")) if l.strip()]
    na = [{"property_id": p, "reason": NOT_YET.get(p, "check not built yet in this revision of /verif (planned, see DESIGN.md section 5); not claimed until its check exists and is quiet on the unchanged tree")}
          for p in props if p not in CHECKS]
    commits = subprocess.run(["git", "-C", "/repo", "log", "--format=%H %s", "--grep=^verif hooks"], capture_output=True, text=True).stdout.split("\n")
    m = {
        "version": 1,
        "setup_cmd": "./setup.sh",
        "hooks": {
            "guard": "verif",
            "enable": "go build -tags verif (both the gopatch CLI and the harness, which imports /repo through a replace directive, are rebuilt from /repo's working tree by every check)",
            "baseline_off_cmd": "cd /repo && GOFLAGS=-mod=mod GOPROXY=off GOSUMDB=off go test -vet=off -count=1 -timeout 25m ./...",
            "source_commits": [c.split(" ")[0] for c in commits if c.strip()],
            "add_only": True,
        },
        "engines": [
            {"name": "tla-run", "path": "spec/Pipeline.tla spec/TracePipeline.tla spec/TraceModes.tla spec/Generated.tla spec/Discover.tla spec/TraceDiscover.tla harness/cli.go lib/fam_run.py lib/fam_emit.py",
             "serves_properties": ["C06", "C07", "C12", "C15", "C16", "C18"],
             "kind_free_text": "state machine of the command's run pipeline with fault actions; hook-event and black-box trace validation of real CLI runs (strace, prlimit)"},
            {"name": "tla-section", "path": "spec/Section.tla spec/TraceSection.tla spec/Splitter.tla spec/TraceSplitter.tla lib/prop_c19.py lib/prop_c13.py",
             "serves_properties": ["C13", "C19"], "kind_free_text": "token-level model of the patch sectioner and metavariable parser; line-kind machine of the sectioner"},
            {"name": "tla-imports", "path": "spec/Imports.tla spec/EmitImports.tla spec/TraceImports.tla lib/fam_imports.py harness/api.go",
             "serves_properties": ["C10", "C11"], "kind_free_text": "guard table and import-set relation (P) vs transcription of engine/import.go (I); scenarios replayed into patch.Parse/File.Apply and judged by TLC"},
            {"name": "tla-concurrent", "path": "spec/Concurrent.tla spec/EmitConcurrent.tla spec/TraceConcurrent.tla spec/Indep.tla spec/TraceIndep.tla harness/sched.go lib/prop_c14.py",
             "serves_properties": ["C14"], "kind_free_text": "interleaving model of concurrent Apply calls; schedules replayed through gate hooks on real goroutines; multi-file runs vs solo runs"},
            {"name": "tla-comments", "path": "spec/Comments.tla spec/MCComments.tla spec/EmitComments.tla spec/TraceComments.tla harness/cmtobs.go lib/prop_c17.py corpus/comments/",
             "serves_properties": ["C17"], "kind_free_text": "interval model of astdiff's changed regions; slot universe of commented declarations replayed and judged by TLC on observer output"},
            {"name": "tla-finder", "path": "spec/Finder.tla spec/TraceCrash.tla lib/prop_c08.py harness/api.go",
             "serves_properties": ["C08"], "kind_free_text": "PlusCal transcription of the augmenter's token scanner (termination by TLC), token strings replayed into the real parser, outcome monitor over ill-typed and mutated patches"},
            {"name": "tla-history", "path": "spec/History.tla spec/EmitHistory.tla spec/TraceHistory.tla lib/prop_c09.py",
             "serves_properties": ["C09"], "kind_free_text": "state machine of the apply loop over change sequences vs chain-of-runs semantics; seven delivery routes and hook events validated by TLC"},
            {"name": "tla-rewrite", "path": "spec/Pattern.tla spec/RewriteUniverse.tla spec/MCRewrite.tla spec/TraceRewrite.tla harness/",
             "serves_properties": ["C01", "C02", "C03", "C04", "C05"],
             "kind_free_text": "TLA+ P-layer/I-layer of the pattern language; TLC design check; vectors replayed into patch.Parse/File.Apply; TLC trace validation"},
        ],
        "checks": checks,
        "not_applicable": na,
        "notes": "All verdicts are TLA+ predicates evaluated by TLC on recorded executions of the real code (DESIGN.md section 2.3). Exit 2 = infrastructure failure, never a verdict.",
    }
    json.dump(m, open(os.path.join(V, "MANIFEST.json"), "w"), indent=1)
    print("MANIFEST.json: %d checks, %d not_applicable" % (len(checks), len(na)))

if __name__ == "__main__":
    main()
