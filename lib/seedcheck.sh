#!/bin/bash
# seedcheck.sh <change-dir> <tier> <prop> [<prop>...]
# Runs the given checks against a scratch worktree of /repo with the seeded change applied
# (VERIF_REPO points the harness and CLI builds at it; evidence and replays go to a scratch dir).
set -u
D=$(readlink -f "$1"); tier=$2; shift 2
W=$(mktemp -d /tmp/seedcheck.XXXXXX); rmdir "$W"
git -C /repo worktree add --detach "$W" HEAD >/dev/null 2>&1 || { echo "cannot create worktree"; exit 2; }
O=$(mktemp -d /tmp/seedout.XXXXXX)
trap 'git -C /repo worktree remove --force "$W" >/dev/null 2>&1; rm -rf "$W" "$O"' EXIT
(cd "$W" && git apply "$D/patch.diff" 2>/dev/null || git apply --3way "$D/patch.diff") || { echo "patch does not apply"; exit 3; }
for p in "$@"; do
  out=$(cd /verif && VERIF_REPO=$W VERIF_OUT=$O ./check $p $tier 2>&1); rc=$?
  echo "$p $tier -> exit $rc"
  echo "$out" | grep -E '^(VIOLATION|INFRA|KNOWN)' | head -4 | cut -c1-400 | sed 's/^/    /'
done
