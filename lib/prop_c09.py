"""C09 - changes and patch files are applied strictly in order.

  1. TLC design check of spec/History.tla: the apply loop (command and library form)
     against the chain of single-change runs, for every file and change sequence
     in the bounds (invariant, two action properties, termination)
  2. TLC emits scenarios per class (spec/EmitHistory.tla); each is rendered as Go
     source and patch text and delivered through seven routes: one patch file,
     one -p per change, -P list, stdin, -p/-P mixed, library API, and a chain of
     single-change runs with the file re-read in between
  3. TLC (spec/TraceHistory.tla) judges every record: every route's result against
     the chain semantics, the hook events of the combined runs against the order
"""
import json, os
import fam_run as fr
from vlib import Infra, load_known, read_ndjson, write_ndjson, pmap, NCPU

ASSUME = [
    "files and changes of the TLA+ universe are rendered by lib/prop_c09.py (calls in seven statement contexts, patterns with and without argument elision); results are abstracted by go/parser (harness op histobs2: package name and, per statement, the nested call term with its literal / identifier / call arguments; the wrappers of the statement contexts are transparent), i.e. compared as syntax, not bytes",
    "a failing step is realised by a replacement that refers to a metavariable the '-' side never binds (Replace returns an error)",
    "calls carry one or two arguments (literals, the identifier x, nested calls up to three deep) that the changes bind with expression metavariables, also repeated ones, so every rewritten site has its own binding, also in code that an earlier change produced or rewrote inside a bound place",
    "sequences in which a change meets an instance of its pattern inside another instance of it, and the hand-written sequences (FREE), are judged against the observed chain of single-change runs (file re-read in between) instead of the model's chain",
    "the `change` hook events (build tag verif) are emitted right after each Change.Match call in patchRunner.Apply",
]

CFG_MC = """SPECIFICATION Spec
CONSTANTS
  Atoms = {%(atoms)s}
  MaxChanges = %(n)d
  MaxLen = %(len)d
  Pkgs = {"p", "q"}
  Lib = "%(lib)s"
  Nested = "1"
INVARIANT InOrderEqualsChain
INVARIANT FunctionalAgrees
PROPERTY NoMatchNoOp
PROPERTY StrictOrder
PROPERTY Terminates
CHECK_DEADLOCK FALSE
"""
CFG_EMIT = """SPECIFICATION EmitSpec
CONSTANTS
  Atoms = {%(atoms)s}
  MaxChanges = %(n)d
  MaxLen = %(len)d
  Pkgs = {"p", "q"}
  Lib = "0"
  Nested = "1"
  OutFile = "%(out)s"
  PerClass = %(per)d
  NFiles = %(nf)d
  NSeqs = %(ns)d
CHECK_DEADLOCK FALSE
"""
CFG_TRACE = """SPECIFICATION TraceSpec
CONSTANTS
  Atoms = {"a", "b", "c"}
  MaxChanges = 3
  MaxLen = 3
  Pkgs = {"p", "q"}
  Lib = "0"
  Nested = "1"
  TraceFile = "%(trace)s"
  OutFile = "%(out)s"
INVARIANT Flush
POSTCONDITION Accepted
CHECK_DEADLOCK FALSE
"""

CONTEXTS = ["\t%s\n", "\t_ = %s\n", "\tgo %s\n", "\tdefer %s\n", "\twrap(%s)\n", "\tif %s {\n\t}\n", "\tx = append(x, %s)\n"]
ARGS = ["1", "x", "\"s\"", "1, x"]
TARGET = "src/t.go"


def q(l):
    return ", ".join('"%s"' % x for x in l)


def term_text(t):
    if not t["args"]:
        if t["f"] == "lit":
            return "x" if t["n"] == 0 else str(t["n"])
        return t["f"][3:] if t["f"].startswith("id:") else t["f"] + "()"
    return "%s(%s)" % (t["f"], ", ".join(term_text(a) for a in t["args"]))


def render_file(sc, rng):
    stmt_rules = any(r["t"] == "sren" for r in sc["rules"])
    # (x is a parameter: the identifier x of the file's code is a resolved name, unlike the copies a change makes of it)
    out = ["// Package doc.\npackage %s\n\nfunc f(x int) {\n" % sc["pkg"]]
    ind = "\t"
    if sc.get("copied"):
        out.append("\trun(func() {\n")
        ind = "\t\t"
    out.append(ind + "first(8)\n")
    for c in sc["body"]:
        call = term_text(c)
        ctxs = ["\tdefer %s\n"] if stmt_rules else CONTEXTS
        out.append(ind[1:] + rng.choice(ctxs) % call)
        if rng.random() < 0.3:
            out.append(ind + "other(%d)\n" % rng.randint(3, 9))
    out.append(ind + "last(9)\n")
    if sc.get("copied"):
        out.append("\t})\n")
    out.append("}\n")
    return "".join(out)


# a preliminary change that reproduces the whole closure through an expression metavariable: what the later
# changes rewrite is then code that an earlier change produced (a copy with synthetic positions)
C0 = "@ c0 @\nvar fn expression\n@@\n-run(fn)\n+run2(ctx, fn)\n"


def render_change(r, k, dots):
    out = ["@ c%d @" % k]
    if r["t"] == "split":
        out.append("var x, y expression")
    elif r["t"] == "dup":
        out.append("var y expression")
    elif r["t"] == "fail":
        out += ["var x expression", "var y expression"]
    elif r["t"] == "renlit":
        pass                                   # x is not a metavariable here
    else:
        out.append("var x expression")
    out.append("@@")
    if r["newpkg"]:
        out += ["-package " + r["guard"], "+package " + r["newpkg"], ""]
    elif r["guard"]:
        out += [" package " + r["guard"], ""]
    if r["t"] == "fail":
        out += ["-%s(x)" % r["from"], "+%s(y)" % r["from"]]
    elif r["t"] == "split":
        out += ["-%s(x, y)" % r["from"], "+pair(%s(x), %s(y))" % (r["to"], r["to"])]
    elif r["t"] == "dup":
        out += ["-%s(y, y)" % r["from"], "+%s(y)" % r["to"]]
    elif r["t"] == "lit2":
        out += ["-%s(x, 1)" % r["from"], "+%s(x)" % r["to"]]
    elif r["t"] == "sren":
        out += ["-defer %s(x)" % r["from"], "+defer %s(x)" % r["to"]]
    else:
        out += ["-%s(x)" % r["from"], "+%s(x)" % r["to"]]
    return "\n".join(out) + "\n"


def _free(pkg, stmts, changes):
    return dict(src="package %s\n\nfunc f() {\n%s}\n" % (pkg, "".join("\t%s\n" % x for x in stmts)),
                changes=["@ c%d @\n%s" % (k + 1, c) for k, c in enumerate(changes)])


X = "var x expression\n@@\n"
Y = "var y expression\n@@\n"
# hand-written sequences outside the rule universe: a later change whose pattern relates two places of the code
# (a repeated metavariable, a nested pattern) that only become instances through what an earlier change did
# INSIDE them.  They are judged against the chain of single-change runs with the file re-read in between,
# which is the property's own definition of the result.
FREE = [
    _free("p", ["use(old(g(old(b, 1)), g(new(b))))", "use(old(g(old(c, 1)), g(new(b))))", "use(old(g(old(b, 2)), g(new(b))))"],
          [X + "-old(x, 1)\n+new(x)\n", Y + "-old(y, y)\n+dup(y)\n"]),
    _free("p", ["keep(pair(wrap(k(1)), k(1)))", "keep(pair(wrap(k(1)), k(2)))", "keep(pair(k(3), k(3)))"],
          [X + "-wrap(x)\n+x\n", Y + "-pair(y, y)\n+one(y)\n"]),
    _free("q", ["h(f(1))", "h(g(2))", "h(k(f(3)))"],
          [X + "-f(x)\n+g(x)\n", Y + "-h(g(y))\n+k(y)\n", X + "-k(x)\n+done(x)\n"]),
    _free("p", ["eq(sum(a(1), 2), sum(b(1), 2))", "eq(sum(a(1), 2), sum(b(2), 2))"],
          [X + "-a(x)\n+b(x)\n", Y + "-eq(y, y)\n+same(y)\n", Y + "-same(sum(b(y), 2))\n+found(y)\n"]),
    _free("p", ["both(old(1, 1), new(1))", "both(lift(old(2, 1)), lift(new(2)))", "both(lift(old(2, 1)), lift(new(3)))"],
          [X + "-old(x, 1)\n+new(x)\n", Y + "-both(y, y)\n+once(y)\n", X + "-once(lift(x))\n+lifted(x)\n"]),
]


FREE.append(dict(src="package a\n\nfunc run() (err error) {\n\twork(1)\n}\n\nfunc other() (n int, err error) {\n\twork(2)\n}\n",
                 changes=["@ c1 @\nvar fn identifier\n@@\n-func fn() (err error, ...) {\n+func fn() (...) {\n   ...\n }\n",
                          "@ c2 @\n@@\n-func run() {\n+func Run() {\n   ...\n }\n"]))
FREE.append(dict(src="package a\n\nfunc run(ctx Ctx) {\n\twork(1)\n}\n\nfunc keepme(ctx Ctx, n int) {\n\twork(2)\n}\n",
                 changes=["@ c1 @\nvar fn identifier\n@@\n-func fn(ctx Ctx, ...) {\n+func fn(...) {\n   ...\n }\n",
                          "@ c2 @\n@@\n-func run() {\n+func Run() {\n   ...\n }\n"]))
FREE.append(dict(src="package a\n\nfunc f() {\n\t_ = []string{drop}\n\t_ = []string{drop, \"b\"}\n\tg(ctx)\n\tg(ctx, 1)\n}\n",
                 changes=["@ c1 @\n@@\n-[]string{drop, ...}\n+[]string{...}\n", "@ c2 @\n@@\n-[]string{}\n+empty()\n",
                          "@ c3 @\n@@\n-g(ctx, ...)\n+g(...)\n", "@ c4 @\n@@\n-g()\n+h()\n"]))


FREE.append(dict(src="package a\n\nimport \"net/url\"\n\nfunc f() {\n\t_ = url.Parse\n\tg()\n}\n",
                 changes=["@ c1 @\n@@\n-g()\n+url := mk()\n+url.Host()\n",
                          "@ c2 @\n@@\n-import \"net/url\"\n\n-url.Parse\n+parse\n"]))


# ... and the mirror image: the local variable that shadowed the import is removed by change k, the selectors that
# referred to it now mean the package, but still carry the resolution information of the parse
FREE.append(dict(src="package a\n\nimport \"log\"\n\nfunc f() {\n\tlog := newLogger()\n\tlog.Println(\"x\")\n}\n\nfunc g() {\n\tlog.Fatal(\"y\")\n}\n",
                 changes=["@ c1 @\n@@\n-log := newLogger()\n+setup()\n",
                          "@ c2 @\n@@\n import \"log\"\n\n-log.Fatal(\"y\")\n+panic(\"y\")\n"]))


FREE.append(dict(src="package a\n\nimport (\n\t\"fmt\"\n\t\"os\"\n)\n\n// Doc of B.\nfunc B() {\n\tx := foo(1, /* two */ 2)\n\tfmt.Println(x, os.Args)\n}\n",
                 changes=["@ c1 @\n@@\n-foo(1, 2)\n+baz\n", "@ c2 @\n@@\n-import \"os\"\n\n-os.Args\n+nil\n"]))


# what go/printer normalises when the file is written - parentheses around an operand of lower precedence, the
# prefix of a number literal - is in the text but not in the tree a later change of the same run sees
FREE.append(dict(src="package a\n\nfunc f() {\n\tuse(dbl(a + b))\n\tuse(dbl(c))\n}\n",
                 changes=["@ c1 @\nvar x expression\n@@\n-dbl(x)\n+x * 2\n", "@ c2 @\nvar y expression\n@@\n-(y) * 2\n+twice(y)\n"]))
FREE.append(dict(src="package a\n\nfunc f() {\n\tuse(mask(0XFF))\n\tuse(old(1))\n}\n",
                 changes=["@ c1 @\nvar x expression\n@@\n-old(x)\n+renamed(x)\n", "@ c2 @\n@@\n-mask(0xFF)\n+low8()\n"]))


def scenario(sid, files, args, stdin="", meta=None):
    return dict(id=sid, files=files, dirs=[], symlinks=[], args=args, stdin=stdin, cwd="", strace=False, meta=meta or {}, timeout_ms=20000)


def run(ctx):
    quick = ctx.tier == "quick"
    known = load_known("C09")
    atoms = ["a", "b"]
    # measured: 2 changes x 1 statement (calls of <=2 leaves or of one nested call): 0.23 M initial states; x 2 statements: 3.4 M;
    # 3 changes x 2 statements: 68 M initial states already for flat calls, 20 min per loop form - not used
    n, ln = (2, 1) if quick else (2, 2)
    states = trans = 0
    for lib in ("0", "1"):
        r = ctx.tlc("History", CFG_MC % dict(atoms=q(atoms), n=n, len=ln, lib=lib), "mc-history-lib" + lib, workers=NCPU, timeout=3000)
        states += r["distinct"]
        trans += r["states"]
    out = ctx.path("vec", "hist.ndjson")
    ctx.tlc("EmitHistory", CFG_EMIT % dict(atoms=q(["a", "b", "c"] if not quick else atoms), n=2, len=2, out=out, per=50 if quick else 400, nf=60, ns=1500 if quick else 4000),
            "emit-history", workers=1, timeout=3000, extra=["-seed", str(ctx.seed)])
    scs = read_ndjson(out)
    out3 = ctx.path("vec", "hist3.ndjson")
    ctx.tlc("EmitHistory", CFG_EMIT % dict(atoms=q(atoms), n=3, len=2, out=out3, per=25 if quick else 300, nf=40, ns=1500 if quick else 6000),
            "emit-history3", workers=1, timeout=3000, extra=["-seed", str(ctx.seed + 1)])
    scs += read_ndjson(out3)
    for fsc in FREE:
        scs.append(dict(free=fsc, rules=[dict(t="free", k=k) for k in range(len(fsc["changes"]))], pkg="", body=[], copied=False))
        scs[-1]["class"] = "free"
    results = execute(ctx, scs)
    st = judge(ctx, results, known)
    by_class = {}
    for m, _, _ in results:
        by_class[m["sc"]["class"]] = by_class.get(m["sc"]["class"], 0) + 1
    cov = dict(states=states, transitions=trans, traces_validated_against_impl=st["cases"], evaluations=st["routes"],
               distinct_nontrivial=len({(m["src"], m["all"]) for m, _, _ in results}), scenarios_by_class=by_class,
               routes_per_scenario=8, model_drift_cases=st["drift"], exhaustive=False,
               samples=[dict(src=results[0][0]["src"], patch=results[0][0]["all"], record=results[0][1], verdict=results[0][2])],
               rule="design: every file (<=%d calls over 2 names, package p|q) x every sequence of <=%d changes (rename with optional package guard / package rename, failing step) for the command and the library loop, checked by TLC against the chain semantics; replay: TLC-chosen scenarios per class (dependent / removed / fails / plain) with 2 and 3 changes, 7 delivery routes each; distinct = distinct (source, patch text)" % (ln, n))
    return ctx.finish("model_checking", cov, ASSUME)


def execute(ctx, scs):
    metas = []
    cli = []
    api = []
    for i, sc in enumerate(scs):
        sc["dots"] = ctx.rng.random() < 0.5
        sc.setdefault("copied", ctx.rng.random() < 0.35)
        if sc.get("free"):
            src, changes = sc["free"]["src"], list(sc["free"]["changes"])
        else:
            src = render_file(sc, ctx.rng)
            changes = [render_change(r, k + 1, sc["dots"]) for k, r in enumerate(sc["rules"])]
        pre = [C0] if sc["copied"] else []          # delivered in front of the scenario's changes, through every route
        p0 = ["-p", "c0.patch"] if sc["copied"] else []
        allp = "\n".join(pre + changes)
        sid = "c09-%d" % i
        m = dict(id=sid, sc=sc, src=src, changes=changes, all=allp, pre=pre)
        metas.append(m)
        pf = [dict(path="c%d.patch" % (k + 1), content=c) for k, c in enumerate(changes)] + [dict(path="c0.patch", content=C0)]
        base = [dict(path=TARGET, content=src), dict(path="all.patch", content=allp),
                # (the last line of a patch list may or may not be terminated)
                dict(path="list.txt", content="\n".join((["c0.patch"] if sc["copied"] else []) + ["c%d.patch" % (k + 1) for k in range(len(changes))]) + ctx.rng.choice(["\n", ""])),
                dict(path="rest.txt", content="\n".join("c%d.patch" % (k + 1) for k in range(1, len(changes))) + ctx.rng.choice(["\n", "", "\n\n"]))] + pf
        cli.append(scenario(sid + "|one", base, ["-p", "all.patch", TARGET]))
        cli.append(scenario(sid + "|each", base, p0 + sum((["-p", "c%d.patch" % (k + 1)] for k in range(len(changes))), []) + [TARGET]))
        cli.append(scenario(sid + "|list", base, ["-P", "list.txt", TARGET]))
        cli.append(scenario(sid + "|stdin", base, [TARGET], stdin=allp))
        # the same change given twice is given as the same file twice
        first = {}
        for k, r in enumerate(sc["rules"]):
            first.setdefault(json.dumps(r, sort_keys=True), k + 1)
        cli.append(scenario(sid + "|same", base, p0 + sum((["-p", "c%d.patch" % first[json.dumps(r, sort_keys=True)]] for r in sc["rules"]), []) + [TARGET]))
        cli.append(scenario(sid + "|mixed", base, p0 + ["-p", "c1.patch"] + (["-P", "rest.txt"] if len(changes) > 1 else []) + [TARGET]))
        api.append(dict(id=sid + "|api", op="apply", patch=allp, name="t.go", src=src))
    recs = {r["id"]: r for r in fr.run_cli(ctx, cli, "c09")}
    # chain of single-change runs, the file re-read in between
    cur = {m["id"]: m["src"] for m in metas}
    chain_fail = {}
    batch = [scenario("%s|chainpre" % m["id"], [dict(path=TARGET, content=cur[m["id"]]), dict(path="c.patch", content=C0)], ["-p", "c.patch", TARGET])
             for m in metas if m["pre"]]
    if batch:
        for r in fr.run_cli(ctx, batch, "c09-chainpre"):
            sid = r["id"].split("|")[0]
            if r["exit"] != 0 or r["timeout"]:
                raise Infra("the preliminary change failed on %s: %s" % (sid, r["stderr"][:200]))
            cur[sid] = r["content"].get(TARGET, "")
    maxn = max(len(m["changes"]) for m in metas)
    for k in range(maxn):
        batch = [scenario("%s|chain%d" % (m["id"], k), [dict(path=TARGET, content=cur[m["id"]]), dict(path="c.patch", content=m["changes"][k])],
                          ["-p", "c.patch", TARGET])
                 for m in metas if k < len(m["changes"]) and m["id"] not in chain_fail]
        if not batch:
            break
        for r in fr.run_cli(ctx, batch, "c09-chain%d" % k):
            sid = r["id"].split("|")[0]
            if r["exit"] != 0 or r["timeout"]:
                chain_fail[sid] = (r["stderr"] or "")[:200]
            else:
                cur[sid] = r["content"].get(TARGET, "")
    inp, outp = ctx.path("c09", "api.in.ndjson"), ctx.path("c09", "api.out.ndjson")
    write_ndjson(inp, api)
    ctx.run_vh(["api", "-in", inp, "-out", outp], timeout=3000)
    apires = {r["id"]: r for r in read_ndjson(outp)}
    # observe
    obsreq = []
    for m in metas:
        sid = m["id"]
        hop = "histobs2d" if m["sc"].get("free") else "histobs2"
        obsreq.append(dict(id=sid + "|in", op=hop, src=m["src"]))
        for route in ("one", "each", "list", "stdin", "mixed", "same"):
            obsreq.append(dict(id="%s|%s" % (sid, route), op=hop, src=recs["%s|%s" % (sid, route)]["content"].get(TARGET, "")))
        a = apires[sid + "|api"]
        obsreq.append(dict(id=sid + "|api", op=hop, src=a["out"] if not a["err"] else m["src"]))
        obsreq.append(dict(id=sid + "|chain", op=hop, src=cur[sid]))
    inp, outp = ctx.path("c09", "obs.in.ndjson"), ctx.path("c09", "obs.out.ndjson")
    write_ndjson(inp, obsreq)
    ctx.run_vh(["api", "-in", inp, "-out", outp], timeout=3000)
    obs = {r["id"]: r for r in read_ndjson(outp)}
    names = {"a", "b", "c", "z"}

    def ab(oid, every=False):
        o = obs[oid]
        if o["err"]:
            return dict(pkg="<unparseable>", body=[])
        j = json.loads(o["out"])
        return dict(pkg=j["pkg"], body=j["body"])

    lines = []
    for m in metas:
        sid = m["id"]
        free = bool(m["sc"].get("free"))
        i0 = ab(sid + "|in", free)
        if free:
            m["sc"]["pkg"], m["sc"]["body"] = i0["pkg"], i0["body"]
        elif i0["pkg"] != m["sc"]["pkg"] or i0["body"] != m["sc"]["body"]:
            raise Infra("rendered source of %s does not abstract back to the scenario" % sid)
        routes, evs = [], []
        for route in ("one", "each", "list", "stdin", "mixed", "same"):
            r = recs["%s|%s" % (sid, route)]
            o = ab("%s|%s" % (sid, route), free)
            failed = r["exit"] != 0 or r["timeout"]
            routes.append(dict(name=route, pkg=o["pkg"], body=o["body"], failed="1" if failed else "0",
                               reported="1" if (failed and TARGET.split("/")[-1] in r["stderr"]) else "0",
                               untouched="1" if r["content"].get(TARGET) == m["src"] else "0"))
            if route == "same":
                continue        # change names repeat there; only the result is judged
            ev = []
            for e in r["events"]:
                if e["ev"] == "change":
                    nm = e.get("name", "")
                    if nm == "c0":
                        continue        # the preliminary change is not one of the scenario's rules
                    ev.append(dict(k=int(nm[1:]) if nm[:1] == "c" and nm[1:].isdigit() else 0, matched="1" if e.get("matched") else "0"))
            evs.append(dict(route=route, ev=ev))
        a = apires[sid + "|api"]
        o = ab(sid + "|api", free)
        routes.append(dict(name="api", pkg=o["pkg"], body=o["body"], failed="1" if a["err"] else "0", reported="1" if a["err"] else "0", untouched="1"))
        want_fail = m["sc"]["class"] == "fails"
        chain_obs = ab(sid + "|chain", free)
        if free and sid in chain_fail:
            raise Infra("a hand-written sequence failed in the chain of single runs (%s): %s" % (sid, chain_fail[sid]))
        if not (want_fail and sid in chain_fail):
            o = chain_obs
            routes.append(dict(name="chain", pkg=o["pkg"], body=o["body"], failed="1" if sid in chain_fail else "0", reported="1", untouched="1"))
        for e in evs:
            lines.append(dict(id=sid + "|" + e["route"], pkg=m["sc"]["pkg"], body=m["sc"]["body"], rules=m["sc"]["rules"], events=e["ev"],
                              free="1" if free else "0", chain=dict(pkg=chain_obs["pkg"], body=chain_obs["body"]),
                              hooks="1", routes=routes if e["route"] == "one" else [x for x in routes if x["name"] == e["route"]]))
        m["recs"] = {route: dict(exit=recs["%s|%s" % (sid, route)]["exit"], stderr=recs["%s|%s" % (sid, route)]["stderr"][:300],
                                 content=recs["%s|%s" % (sid, route)]["content"].get(TARGET)) for route in ("one", "each", "list", "stdin", "mixed", "same")}
        m["api"] = a
        m["chain"] = dict(content=cur[sid], failed=chain_fail.get(sid))
    # TLC judges
    shards = max(1, min(NCPU, len(lines)))
    idx = [list(range(len(lines)))[i::shards] for i in range(shards)]

    def one(ix):
        tf = ctx.path("trace", "c09-%d.ndjson" % ix)
        of = ctx.path("trace", "c09-%d.verdicts.ndjson" % ix)
        part = [lines[i] for i in idx[ix]]
        if os.environ.get("VERIF_SELFTEST") == "corrupt" and ix == 0:
            # falsify one observation: the result of the first route of the first record gets another package name
            part[0] = dict(part[0], routes=[dict(part[0]["routes"][0], pkg="corrupted")] + part[0]["routes"][1:])
        write_ndjson(tf, part)
        ctx.tlc("TraceHistory", CFG_TRACE % dict(trace=tf, out=of), "trace-c09-%d" % ix, workers=1, timeout=3000)
        vs = read_ndjson(of)
        if len(vs) != len(idx[ix]):
            raise Infra("TraceHistory shard %d: %d records, %d verdicts" % (ix, len(idx[ix]), len(vs)))
        return list(zip(idx[ix], vs))

    verd = [None] * len(lines)
    for res in pmap(one, range(shards)):
        for i, v in res:
            verd[i] = v
    bym = {m["id"]: m for m in metas}
    return [(bym[ln["id"].split("|")[0]], ln, v) for ln, v in zip(lines, verd)]


def _known_inputs():
    import os
    out = {}
    for line in open(os.path.join(os.path.dirname(os.path.dirname(os.path.abspath(__file__))), "known_findings.jsonl")):
        if line.strip():
            e = json.loads(line)
            if e.get("status") == "known" and e.get("property") == "C09" and "changes" in e.get("example", {}):
                out[e["key"]] = (e["example"]["src"], tuple(e["example"]["changes"]))
    return out


KNOWN_INPUT = _known_inputs()


def judge(ctx, results, known):
    st = dict(cases=0, routes=0, drift=0)
    for m, ln, v in results:
        st["cases"] += 1
        st["routes"] += len(ln["routes"])
        if v["ieq"] != "1":
            st["drift"] += 1
        if v["viol"] and m["sc"].get("free"):
            # recorded defects of the unchanged tree, identified by their exact input (known_findings.jsonl)
            kf = next((k for k in known if KNOWN_INPUT.get(k) == (m["src"], tuple(m["changes"]))), None)
            if kf:
                ctx.known(kf, known[kf], ln["id"])
                continue
        if v["viol"]:
            ctx.violation("%s: %s rules=%s" % (ln["id"], ",".join(v["viol"]), [(r["t"], r.get("from"), r.get("to"), r.get("guard"), r.get("newpkg")) for r in m["sc"]["rules"]] if not m["sc"].get("free") else "hand-written sequence"),
                          dict(kind="history", id=ln["id"], violated=v["viol"], scenario=m["sc"], src=m["src"], changes=m["changes"],
                               record=ln, runs=m["recs"], api=m["api"], chain=m["chain"]))
    return st


def replay(ctx, path):
    r = json.load(open(path))
    sc = r["scenario"]
    # re-run the recorded texts through all routes
    ctx.rng.seed(0)
    metas_sc = dict(sc)
    res = execute_texts(ctx, metas_sc, r["src"], r["changes"])
    st = judge(ctx, res, load_known("C09"))
    return ctx.finish("model_checking", dict(states=0, transitions=0, traces_validated_against_impl=st["cases"], samples=[res[0][1]],
                                             rule="replay of one recorded scenario"), ["replay"])


def execute_texts(ctx, sc, src, changes):
    """execute() for fixed texts (replay): monkey-patches the renderers."""
    global render_file, render_change
    rf, rc = render_file, render_change
    try:
        render_file = lambda s, rng: src
        it = iter(changes)
        render_change = lambda r, k, dots: changes[k - 1]
        return execute(ctx, [sc])
    finally:
        render_file, render_change = rf, rc
