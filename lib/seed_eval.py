#!/usr/bin/env python3
"""seed_eval.py [--confirm] [--thorough] [ids...]
For every /verif/seeded/<id>: (optionally) confirm the change in a scratch worktree (applies, compiles,
pinned suite green, demonstration fails with it and passes without), run the quick check of the property
it targets (plus the checks listed under "also_check") against a scratch worktree with the change applied,
and record the outcome in meta.json.  /repo itself is never modified."""
import hashlib, json, os, re, subprocess, sys
V = "/verif"
args = [a for a in sys.argv[1:] if not a.startswith("--")]
confirm = "--confirm" in sys.argv
tier = "thorough" if "--thorough" in sys.argv else "quick"
ids = args or sorted(os.listdir(os.path.join(V, "seeded")))
head = subprocess.run(["git", "-C", "/repo", "rev-parse", "--short", "HEAD"], capture_output=True, text=True).stdout.strip()
for i in ids:
    d = os.path.join(V, "seeded", i)
    mp = os.path.join(d, "meta.json")
    if not os.path.exists(os.path.join(d, "patch.diff")):
        continue
    meta = json.load(open(mp)) if os.path.exists(mp) else dict(id=i, breaks_property=i.split("-")[0])
    ph = hashlib.sha1(open(os.path.join(d, "patch.diff"), "rb").read()).hexdigest()[:10]
    if confirm and meta.get("confirmed", {}).get("patch_sha") != ph:
        r = subprocess.run([os.path.join(V, "lib", "seedconfirm.sh"), d], capture_output=True, text=True)
        m = re.search(r"RESULT clean_demo_pass=(\d) suite_pass=(\d) demo_fails_with_change=(\d)", r.stdout)
        meta["confirmed"] = dict(patch_sha=ph, at_repo=head, applies_and_compiles=bool(m), demo_passes_without_change=bool(m and m.group(1) == "1"),
                                 pinned_suite_passes_with_change=bool(m and m.group(2) == "1"), demo_fails_with_change=bool(m and m.group(3) == "1"),
                                 ran="lib/seedconfirm.sh seeded/%s (scratch worktree of /repo, removed afterwards)" % i)
        print(i, "confirm:", m.group(0) if m else r.stdout[-300:], flush=True)
        json.dump(meta, open(mp, "w"), indent=1)
    props = [meta["breaks_property"]] + [p for p in meta.get("also_check", []) if p != meta["breaks_property"]]
    r = subprocess.run([os.path.join(V, "lib", "seedcheck.sh"), d, tier] + props, capture_output=True, text=True)
    res = meta.setdefault("checks", {})
    if "patch does not apply" in r.stdout + r.stderr:
        # (a stale verdict must not pass for one of this revision)
        meta["patch_state"] = "DOES NOT APPLY at /repo %s - rebase by hand" % head
        print(i, "patch does not apply at", head, flush=True)
        json.dump(meta, open(mp, "w"), indent=1)
        continue
    for p, code in re.findall(r"^(C\d+) \w+ -> exit (\d+)", r.stdout, flags=re.M):
        first = re.search(r"^%s \w+ -> exit \d+\n((?:    .*\n)*)" % p, r.stdout, flags=re.M)
        viol = [l.strip() for l in (first.group(1).split("\n") if first else []) if l.strip().startswith("VIOLATION")]
        res[p] = dict(tier=tier, exit=int(code), verdict={"0": "missed", "1": "caught", "2": "infra"}.get(code, "?"), at_repo=head,
                      first_violation=re.sub(r"replay=\S+\s*", "", viol[0])[:300] if viol else "")
        print(i, p, res[p]["verdict"], res[p]["first_violation"][:120], flush=True)
    meta["ran"] = "lib/seed_eval.py (lib/seedcheck.sh: VERIF_REPO=<scratch worktree with patch.diff applied> ./check <prop> %s)" % tier
    json.dump(meta, open(mp, "w"), indent=1)
