"""C10 - package and import clauses of a change guard the whole file."""
import fam_imports as fi
from vlib import load_known

OWNED = {"C10_AppliesIffGuardsHold", "C10_GuardFailedNoEffect", "C10_ImportNameBindsBody", "NoError", "C03_PlusUnderCapturedName"}
ASSUME = [
    "scenarios of the TLA+ universe are rendered to patch text and Go source by lib/fam_imports.py; what the file imports, which names it still uses and whether the code pattern was rewritten are read off the real input and output by go/parser (harness op impobs), not taken from the scenario",
    "files with two imports of one path are outside the table (DESIGN.md section 7) and are not generated",
    "one metavariable per guarded import; the metavariable is named like the package (docs: best practices for imports)",
    "the code pattern occurs in every generated file (plain call foo() -> bar(), or a call through the guarded package)",
]


def run(ctx):
    quick = ctx.tier == "quick"
    known = load_known("C10")
    pp, op = ["x/p", "x/q"], ["x/o"]
    d = fi.design(ctx, "guards", pp, op, 2, "mc-imports-guards")
    if not quick:
        fi.design(ctx, "guards", ["x/p", "y/p", "x/q"], ["x/o"], 2, "mc-imports-guards-3paths")
    scs = fi.emit(ctx, "guards", pp, op, 2, 3 if quick else 0, 1, "guards")
    if not quick:
        scs += fi.emit(ctx, "guards", ["x/p", "y/p"], ["x/o", "fmt"], 2, 6, 1, "guards-samebase")
    meta, lines = fi.run_cases(ctx, scs, "c10", allow_ref=True)
    verdicts = fi.validate(ctx, "c10", meta, lines)
    st = fi.judge(ctx, meta, lines, verdicts, OWNED, known)
    # histories: a first change edits the imports, the guards of a second change see the result
    pairs = fi.emit(ctx, "edits", pp, op, 2, 1 if quick else 4, 2 if quick else 6, "pairs", pairs=True)
    if quick:
        pairs = [pairs[i] for i in sorted(ctx.rng.sample(range(len(pairs)), min(len(pairs), 1500)))]
    pmeta, plines = fi.run_pairs(ctx, pairs, "c10p")
    pverd = fi.validate(ctx, "c10p", pmeta, plines)
    pst = fi.judge(ctx, pmeta, plines, pverd, {"C10_AppliesIffGuardsHold", "NoError"}, known)
    if pst["holds"] == 0 or pst["fails"] == 0:
        raise fi.Infra("vacuous pair run: second guards hold in %d and fail in %d cases" % (pst["holds"], pst["fails"]))
    if st["holds"] == 0 or st["fails"] == 0:
        raise fi.Infra("vacuous run: guards hold in %d and fail in %d cases" % (st["holds"], st["fails"]))
    cov = dict(states=d["distinct"], transitions=d["states"], traces_validated_against_impl=st["judged"], evaluations=st["judged"],
               distinct_nontrivial=len({(m["patch"], m["src"]) for m in meta}), cases_guard_holds=st["holds"], cases_guard_fails=st["fails"],
               cases_rewritten=st["changed"], model_drift_cases=st["drift"] + pst["drift"],
               two_change_histories=pst["judged"], histories_second_guard_holds=pst["holds"], histories_second_guard_fails=pst["fails"], exhaustive=not quick,
               samples=[dict(patch=meta[0]["patch"], src=meta[0]["src"], observed=meta[0]["obs"], verdict=verdicts[0]),
                        dict(patch=meta[-1]["patch"], src=meta[-1]["src"], observed=meta[-1]["obs"], verdict=verdicts[-1])],
               rule="design: every (package clause in {none, same, other}) x (<=2 guarded import lines over 2 paths x 6 forms: unnamed, literal same / other name, dot, blank, metavariable) x (every file importing each of 3 paths absent / unnamed / same name / other name / dot / blank) checked by TLC, I <=> P; replay: %s of those scenarios rendered in 4 import layouts; plus two-change patch files where the first change adds / deletes / renames imports and the second is guarded by the affected paths (its guard is judged on the observed result of the first change alone); distinct = distinct (patch text, source text)" % ("a TLC-chosen sample (3 holding + 3 failing files per patch)" if quick else "all"))
    return ctx.finish("model_checking", cov, ASSUME)


def replay(ctx, path):
    return fi.replay(ctx, path, OWNED, "C10")
