#!/bin/bash
# usage: mutest.sh <prop> <tier> <sed-expr> <file-relative-to-repo>   (temporary mutation of /repo; always restored)
prop=$1; tier=$2; expr=$3; file=$4
cd /repo || exit 2
git diff --quiet || { echo "repo dirty"; exit 2; }
sed -i "$expr" "$file"
git diff --stat | tail -1
(cd /repo && go build ./... ) || { echo "does not compile"; git checkout -- .; exit 3; }
cd /verif && ./check $prop $tier 2>&1 | grep -E 'VIOLATION|INFRA|ok in|VIOLATED' | head -5
git -C /repo checkout -- .
