#!/usr/bin/env python3
"""mut.py <file> <old> <new> -- <prop> <tier> [<prop> <tier> ...]
Temporarily replaces the first occurrence of <old> by <new> in /repo/<file>, checks that the
repo still builds, runs the given checks, then restores /repo."""
import subprocess, sys, os
f, old, new = sys.argv[1:4]
rest = sys.argv[5:]
p = os.path.join("/repo", f)
if subprocess.run(["git", "-C", "/repo", "diff", "--quiet"]).returncode != 0:
    print("repo dirty"); sys.exit(2)
s = open(p).read()
old = old.encode().decode("unicode_escape"); new = new.encode().decode("unicode_escape")
if old not in s:
    print("pattern not found"); sys.exit(2)
open(p, "w").write(s.replace(old, new, 1))
try:
    env = dict(os.environ, GOFLAGS="-mod=mod", GOPROXY="off")
    if subprocess.run(["go", "build", "./..."], cwd="/repo", env=env).returncode != 0:
        print("does not compile"); sys.exit(3)
    if os.environ.get("MUT_TESTS"):
        r = subprocess.run("go test -vet=off -count=1 ./... 2>&1 | grep -v 'no test files' | grep -v '^ok' | head -5", shell=True, cwd="/repo", env=env, capture_output=True, text=True)
        print("repo tests:", "PASS" if not r.stdout.strip() else "FAIL\n" + r.stdout)
    for i in range(0, len(rest), 2):
        r = subprocess.run(["./check", rest[i], rest[i + 1]], cwd="/verif", capture_output=True, text=True)
        lines = [l for l in r.stdout.splitlines() if l.startswith(("VIOLATION", "INFRA", "KNOWN"))][:3]
        print("%s %s -> exit %d" % (rest[i], rest[i + 1], r.returncode))
        for l in lines:
            print("   ", l[:300])
finally:
    subprocess.run(["git", "-C", "/repo", "checkout", "--", "."])
