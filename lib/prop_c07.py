"""C07 - whatever gopatch emits on success is syntactically valid Go."""
import fam_run as fr
import fam_emit as fe
from run_common import coverage, pick
from vlib import load_known

PREDS = {"C07_EmittedParses", "C07_BadResultReported", "C07_OutputWellFormed"}
ASSUME = [
    "'parses as Go' is go/parser's verdict (observer)",
    "emitted content is recovered from disk, stdout (print mode) and by applying the printed diff",
]


def run(ctx):
    quick = ctx.tier == "quick"
    known = load_known("C07")
    fr.design_check(ctx, 2 if quick else 3)
    ref = fr.reference_outputs(ctx)
    scs = [s for s in fr.enumerate_scenarios(2, faults=["none"]) if "badresult" in s["kinds"]]
    scs = pick(ctx, scs, 300 if quick else None)
    # runs of three files in which one fails while others are emitted (small and large contents mixed)
    three = [s for s in fr.enumerate_scenarios(3, faults=["none"]) if len(s["kinds"]) == 3 and s["kinds"].count("match") == 2 and
             any(k in s["kinds"] for k in ("badresult", "unparseable", "replaceerr")) and (s["flags"]["print"] or s["flags"]["diff"])]
    for s in three:
        ks = s["kinds"]
        big = ctx.rng.sample([fr.BIG_MATCH, fr.MID_MATCH, fr.MATCH, fr.CONTENT["match"][3]], 2)
        s["contents"] = [big.pop() if k == "match" else ctx.rng.choice(fr.CONTENT[k]) for k in ks]
    scs += pick(ctx, three, 80 if quick else None)
    # in-place runs in which the kernel refuses the write of the new content (file size limit): whatever the run
    # leaves on disk and calls a success parses
    wf = [s for s in fr.enumerate_scenarios(2, faults=["fsize"]) if not s["flags"]["diff"] and not s["flags"]["print"] and "match" in s["kinds"]]
    scs += pick(ctx, wf, 60 if quick else None)
    real = [fr.realise(ctx, s, "c07-%d" % i, ctx.rng) for i, s in enumerate(scs)]
    recs = fr.run_cli(ctx, real, "c07")
    results = fr.validate(ctx, "c07", recs, ref)
    st = fr.judge(ctx, results, PREDS, known)
    # replacements placed into every kind of slot, every mode x --skip-import-processing, API included
    est = fe.emitted_parses(ctx, known, quick)
    cov = coverage(ctx, results, st,
                   "pipeline scenarios containing a change whose result does not parse x all 32 flag combinations; plus ill-fitting replacements (slot vectors and universe patterns on whole files) x {write, print, diff, API} x {with, without --skip-import-processing}: every emitted content is parsed",
                   dict(emit_cases=est["cases"], emitted_contents_parsed=est["emitted"], emit_errors_reported=est["reported"]))
    return ctx.finish("model_checking", cov, ASSUME)
