"""C16 - failures never leave half-written files and are always reported."""
import fam_run as fr
from run_common import coverage, pick
from vlib import load_known

PREDS = {"C16_Atomic", "C16_Reported", "C16_ExitZeroMeansAllDone", "C16_Isolation"}
ASSUME = [
    "faults are injected into the unmodified binary: strace -e inject (EACCES on the read open, EIO or SIGKILL at the rename onto the target, -P <target>) and prlimit --fsize=N (the write of new content fails after N bytes)",
    "a crash can only change a file inside a file-mutating system call; those are enumerated from the strace log",
    "patched reference bytes come from a fault-free --print-only run of the same binary",
    "abstraction of stdout/stderr into per-file parts is faithful; unrecognised output fails the predicates",
]


def run(ctx):
    quick = ctx.tier == "quick"
    known = load_known("C16")
    fr.design_check(ctx, 2 if quick else 3)
    ref = fr.reference_outputs(ctx)
    # every fault point at every file of runs of 1..2 files, write mode (dry runs have no write path);
    # plus every per-file failure kind at every position without an injected fault
    wr = [dict(zip(fr.FLAGS, (False, False, si, sg, v))) for si in (False, True) for sg in (False, True) for v in (False, True)]
    scs = fr.enumerate_scenarios(2, flagsets=wr)
    if not quick:
        scs += [s for s in fr.enumerate_scenarios(3, flagsets=wr[:2]) if len(s["kinds"]) == 3]
    dry = [s for s in fr.enumerate_scenarios(2, faults=["none", "read", "fsize"]) if s["flags"]["diff"] or s["flags"]["print"]]
    # (patches that cannot be loaded are few and end the run at once: a fixed share of them is always replayed)
    bad = [s for s in scs if s["fault"]["p"] == "badpatch"] + [s for s in fr.enumerate_scenarios(1, faults=["badpatch"]) if s["flags"]["diff"] or s["flags"]["print"]]
    scs = [s for s in scs if s["fault"]["p"] not in ("badpatch", "stdoutfull")]
    # dry runs whose standard output cannot be written to (two and three files: a failing file before and after)
    full = [s for s in fr.enumerate_scenarios(2, faults=["stdoutfull"]) if s["flags"]["diff"] or s["flags"]["print"]]
    bad += pick(ctx, full, 80 if quick else 600)
    scs = pick(ctx, scs, 860 if quick else 12000) + pick(ctx, bad, 120 if quick else 1000) + pick(ctx, dry, 150 if quick else 2000)
    # many failing files in one run (the exit status is one byte wide: counts at and around its multiples)
    for n in ((255, 256) if quick else (255, 256, 257, 512, 768)):
        scs.append(dict(kinds=["unparseable"] * n + ["match"], flags=wr[ctx.rng.randrange(len(wr))], fault=dict(f=0, p="none")))
    real = [fr.realise(ctx, s, "c16-%d" % i, ctx.rng) for i, s in enumerate(scs)]
    recs = fr.run_cli(ctx, real, "c16")
    results = fr.validate(ctx, "c16", recs, ref)
    st = fr.judge(ctx, results, PREDS, known)
    nf = len({(tuple(r[0]["meta"]["sc"]["kinds"]), r[0]["meta"]["sc"]["fault"]["f"], r[0]["meta"]["sc"]["fault"]["p"]) for r in results if r[0]["meta"]["sc"]["fault"]["p"] != "none"})
    cov = coverage(ctx, results, st,
                   "design: all runs of <=2 (thorough 3) files x 6 kinds x 32 flag sets x {none, unreadable target, file-size limit, failing rename, kill before rename} at every file (TLC, exhaustive); replay: the same scenarios in write mode (seeded sample in quick) with the fault realised on the real binary; distinct = distinct scenarios",
                   dict(distinct_fault_placements=nf))
    cov["evaluations"] = st["runs"]
    return ctx.finish("fault_enumeration", cov, ASSUME)
