"""C08 - no input makes gopatch crash or hang.

  (i)   spec/Finder.tla: PlusCal transcription of the pgo augmenter's token scanner
        (internal/pgo/augment/find.go); TLC checks termination (weak fairness) and two
        invariants for every token string in the bounds and prints the augmentations
        the model finds; every string is concretised and run through the real
        augmenter and patch.Parse under a watchdog (outcome + model drift).
  (ii)  grammar-generated ill-typed patches: a metavariable in every slot template x
        every kind of binding, through patch.Parse / File.Apply.
  (iii) exploration: truncations, token deletions / duplications / swaps and random
        bytes applied to valid patches (testdata, examples, (ii)), crossed with Go files.
  Every recorded execution is judged by the outcome monitor spec/TraceCrash.tla.
"""
import glob, json, os, re
import fam_run as fr
from vlib import Infra, load_known, read_ndjson, write_ndjson, pmap, NCPU, REPO, VERIF

ASSUME = [
    "token classes are concretised on one line (package, import, brackets, func, type|var|const, an identifier, '.', '...', ',', ';', a string literal); go/scanner's automatic semicolon at the end of the input is part of the model (Eff)",
    "'promptly' = 5 s per call of the augmenter, 10 s per patch.Parse / File.Apply call (watchdog in the harness), 20 s per command run; an input whose watchdog fired is run again alone with a 60 s watchdog and only judged a hang if it still does not return",
    "memory exhaustion is observed as a killed worker process (the batch is bisected down to the offending input)",
    "part (iii) is plain exploration: the specification only supplies seeds and the outcome monitor",
]

TOKS = ["package", "import", "(", ")", "{", "}", "[", "]", "func", "decl", "id", ".", "...", ",", ";", "str"]
CONCRETE = {"package": "package", "import": "import", "decl": None, "id": "x", "str": "\"s\""}
QUICK_TOKS = ["package", "import", "(", ")", "{", "[", "func", "decl", "id", ".", "...", ","]

CFG_FINDER = """SPECIFICATION Spec
CONSTANTS
  Toks = {%s}
  MaxLen = %d
INVARIANT AugsBounded
INVARIANT CursorInRange
INVARIANT DumpAugs
PROPERTY Termination
CHECK_DEADLOCK FALSE
"""
CFG_TRACE = """SPECIFICATION TraceSpec
CONSTANTS
  TraceFile = "%s"
  OutFile = "%s"
INVARIANT Flush
POSTCONDITION Accepted
CHECK_DEADLOCK FALSE
"""
AUGNAME = {"fakepkg": "FakePackage", "fakefunc": "FakeFunc", "fakefunc-braces": "FakeFunc", "dots": "Dots", "dots-named": "Dots"}


def concretise(toks, rng):
    out = []
    for t in toks:
        c = CONCRETE.get(t, t)
        if c is None:
            c = rng.choice(["type", "var", "const"])
        out.append(c)
    return " ".join(out)


def api_batch(ctx, reqs, name, shards=NCPU):
    """Runs api requests in worker processes; a worker that dies is bisected."""
    def run(part, tag):
        if not part:
            return []
        inp, outp = ctx.path("c08", tag + ".in.ndjson"), ctx.path("c08", tag + ".out.ndjson")
        write_ndjson(inp, part)
        r = ctx.run_vh(["api", "-in", inp, "-out", outp], timeout=3000, check=False)
        if r.returncode == 0:
            rs = read_ndjson(outp)
            if len(rs) == len(part):
                return rs
        if len(part) == 1:
            return [dict(id=part[0]["id"], out="", err="killed:worker exit %d %s" % (r.returncode, r.stderr[-300:]))]
        h = len(part) // 2
        return run(part[:h], tag + "a") + run(part[h:], tag + "b")

    shards = max(1, min(shards, len(reqs)))
    parts = [reqs[i::shards] for i in range(shards)]
    res = {}
    for rs in pmap(lambda ix: run(parts[ix], "%s-%d" % (name, ix)), range(shards)):
        for r in rs:
            res[r["id"]] = r
    return [res[r["id"]] for r in reqs]


def outcome_of(err):
    """(outcome, diag, status) from the harness's error string."""
    if not err:
        return "ok", "0", "0"
    if err.startswith("panic:"):
        return "panic", "1", "x"
    if err == "timeout":
        return "timeout", "0", "x"
    if err.startswith("killed:"):
        return "oom", "0", "x"
    msg = re.sub(r"^(parse|apply|error):", "", err)
    return "error", "1" if msg.strip() else "0", "1"


# ------------------------------------------------------------------ (i) tokens --
def part_tokens(ctx, quick, recs, st):
    # quick: 12 classes, length <= 4; thorough: all 16 classes length <= 4 and 12 classes length <= 5
    runs = [(QUICK_TOKS, 4)] if quick else [(TOKS, 4), (QUICK_TOKS, 5)]
    strings, seen = [], set()
    for k, (toks, n) in enumerate(runs):
        r = ctx.tlc("Finder", CFG_FINDER % (", ".join('"%s"' % t for t in toks), n), "mc-finder-%d" % k, workers=NCPU, timeout=6000)
        st["states"] += r["distinct"]
        st["transitions"] += r["states"]
        for m in re.finditer(r'<<"AUGS", <<(.*?)>>, <<(.*?)>>>>', r["out"]):
            inp = re.findall(r'"([^"]*)"', m.group(1))
            augs = re.findall(r'"([^"]*)"', m.group(2))
            if tuple(inp) not in seen:
                seen.add(tuple(inp))
                strings.append((inp, augs))
    if not strings:
        raise Infra("Finder.tla printed no AUGS lines")
    st["token_strings"] = len(strings)
    reqs = []
    for i, (inp, augs) in enumerate(strings):
        text = concretise(inp, ctx.rng) + "\n"
        reqs.append(dict(id="tok-%d|aug" % i, op="augment", src=text))
        reqs.append(dict(id="tok-%d|minus" % i, op="parsepatch", name="t.patch", patch="@@\n@@\n-%s+x\n" % text))
        reqs.append(dict(id="tok-%d|plus" % i, op="parsepatch", name="t.patch", patch="@@\n@@\n-x\n+%s" % text))
    REQS.update({r["id"]: r for r in reqs})
    res = {x["id"]: x for x in api_batch(ctx, reqs, "tok")}
    for i, (inp, augs) in enumerate(strings):
        a = res["tok-%d|aug" % i]
        o, d, s = outcome_of(a["err"])
        real = sorted(k.split("@")[0].split(".")[-1] for k in (json.loads(a["out"]) if a["out"] and a["out"] != "null" else []))
        pred = sorted(AUGNAME[x] for x in augs)
        recs.append(dict(id="tok-%d|aug" % i, outcome=o, diag=d, status=s, augs=real if o in ("ok", "error") else pred, pred=pred,
                         what=dict(tokens=inp)))
        for side in ("minus", "plus"):
            x = res["tok-%d|%s" % (i, side)]
            o, d, s = outcome_of(x["err"])
            recs.append(dict(id="tok-%d|%s" % (i, side), outcome=o, diag=d, status=s, augs=[], pred=[], what=dict(tokens=inp, side=side)))


# -------------------------------------------------------------- (ii) ill-typed --
BINDINGS = {"ident": "name", "lit": "42", "str": "\"s\"", "binary": "a + b", "call": "g(1)", "funclit": "func() {}", "complit": "T{1}",
            "selector": "p.q", "star": "*p", "paren": "(a)", "index": "a[0]", "unary": "-a", "slice": "a[1:2]", "assert": "a.(T)",
            "maptype": "map[string]int", "chantype": "chan int", "ellipsis-call": "g(xs...)", "generic": "G[int]"}
SLOTS = {
    "sel": "y.x", "recv": "x.y", "call-fun": "x(1)", "call-arg": "h(x)", "type-var": "var v x", "var-name": "var x = 1", "var-value": "var v = x",
    "const-name": "const x = 1", "type-name": "type x int", "type-def": "type T x", "field-name": "type T struct{ x int }",
    "field-type": "type T struct{ f x }", "func-name": "func x() {}", "method-name": "func (r R) x() {}", "recv-type": "func (r x) m() {}",
    "param-name": "func f(x int) {}", "param-type": "func f(p x) {}", "result-type": "func f() x { return nil }", "label": "x:\n\tfor {\n\t}",
    "goto": "goto x", "assign-lhs": "x = 1", "define-lhs": "x := 1", "range-key": "for x := range xs {\n\t}", "case": "switch v {\n\tcase x:\n\t}",
    "key": "T{x: 1}", "elt": "[]int{x}", "array-len": "[x]int{}", "index": "a[x]", "slice-lo": "a[x:]", "star": "*x", "unary": "-x",
    "paren": "(x)", "go": "go x", "defer": "defer x", "send": "ch <- x", "incdec": "x++", "return": "return x", "if-cond": "if x {\n\t}",
    "chan-elem": "make(chan x)", "map-key": "map[x]int{}", "generic-arg": "G[x]{}", "typeassert": "v.(x)", "import-name": "import x \"fmt\"\n\nfoo()",
}


def part_illtyped(ctx, quick, recs, st):
    reqs, meta = [], {}
    slots = sorted(SLOTS)
    binds = sorted(BINDINGS)
    for si, s in enumerate(slots):
        for bi, b in enumerate(binds):
            for kind in ("expression", "identifier"):
                if kind == "identifier" and b != "ident" and quick and (si + bi) % 3:
                    continue
                rid = "ill-%s-%s-%s" % (s, b, kind[:4])
                patch = "@@\nvar x %s\n@@\n-foo(x)\n+%s\n" % (kind, SLOTS[s])
                src = "package a\n\nfunc f() {\n\tfoo(%s)\n\tv := foo(%s)\n\t_ = v\n}\n\nvar w = foo(%s)\n" % ((BINDINGS[b],) * 3)
                reqs.append(dict(id=rid, op="apply", patch=patch, name="s.go", src=src))
                meta[rid] = dict(patch=patch, src=src)
                # the metavariable on the '-' side in the odd slot, too
                rid2 = rid + "|m"
                patch2 = "@@\nvar x %s\n@@\n-%s\n+bar(x)\n" % (kind, SLOTS[s])
                reqs.append(dict(id=rid2, op="apply", patch=patch2, name="s.go", src=src))
                meta[rid2] = dict(patch=patch2, src=src)
    REQS.update({r["id"]: r for r in reqs})
    for req, r in zip(reqs, api_batch(ctx, reqs, "ill")):
        o, d, s = outcome_of(r["err"])
        recs.append(dict(id=req["id"], outcome=o, diag=d, status=s, augs=[], pred=[], what=meta[req["id"]]))
    st["illtyped_cases"] = len(reqs)


# ------------------------------------------------- (ii') every kind of Go syntax in a patch --
# one well-formed snippet per statement / expression / declaration form of go/ast; each is used as the '+'
# side, as a context line and as the '-' side of a patch (patch compilation and matching must cope with
# every node kind, including those with optional children that are nil)
SNIPPETS = [
    "break", "continue", "fallthrough", "goto L", "break L", "continue L", "return", "return x, y", "L:\n\tfoo()", "L:", "go f()", "defer f()",
    "select {\n\tcase <-ch:\n\t}", "select {}", "select {\n\tcase v, ok := <-ch:\n\t\t_ = v\n\tdefault:\n\t}", "switch x {\n\tcase 1, 2:\n\t}", "switch {\n\tdefault:\n\t}",
    "switch x := y.(type) {\n\tcase int:\n\t\t_ = x\n\t}", "switch y.(type) {\n\t}", "for {\n\t}", "for i := range xs {\n\t}", "for range ch {\n\t}", "for i := 0; ; i++ {\n\t}",
    "for ; x; {\n\t}", "if a {\n\t} else if b {\n\t} else {\n\t}", "if v := f(); v {\n\t}", "{\n\t}", "x++", "x--", "ch <- v", "var v int", "var v, w = 1, 2", "const c = 1", "type T int",
    "type T = int", "x, y = y, x", "x := <-ch", "x += 1", "x &^= 1", "_ = x.(T)", "func() {}()", "var fn = func(a ...int) (r int) { return }", "_ = a[i]", "_ = a[i:j:k]", "_ = a[:]",
    "_ = *p", "_ = &T{}", "_ = func(int) string(nil)", "_ = map[K]V{}", "_ = []int{1: 2}", "_ = [...]int{}", "_ = struct{ A int }{}", "_ = interface{ M() }(nil)",
    "_ = (chan<- int)(nil)", "_ = (<-chan int)(nil)", "_ = <-ch", "_ = a.b.c", "f(xs...)", "_ = G[int](x)", "_ = G[int, string]{}", "_ = -x", "_ = !b", "_ = ^m", "_ = (x)", "_ = 'c'",
    "_ = 1.5e3", "_ = 0x1p-2", "_ = 1i", "_ = `raw`", "_ = T{A: 1, B: T{}}", "_ = [2][]map[string]*int{}", "_ = func(a, b int, c ...string) (x, y int) { return }",
]
DECL_SNIPPETS = [
    "func fn[T any](x T) T { return x }", "func (r *R) m() {}", "func (R) m(int) (int, error) { return 0, nil }", "type T[P any] struct{}", "type I interface{ ~int | ~string }",
    "type I interface {\n\tM()\n\tE\n}", "type S struct {\n\tA, B int `tag`\n\tE\n\t*P\n}", "var (\n\ta = 1\n\tb = 2\n)", "const (\n\tA = iota\n\tB\n)", "var _ = 1", "func init() {}",
    "func ext()",
]
KIND_SRC = ("package a\n\nfunc f(xs []int, ch chan int, x, y int) {\nL:\n\tfor {\n\t\tfoo()\n\t\tbreak L\n\t}\n\tfoo()\n\tswitch {\n\tcase x > 0:\n\t\tfoo()\n\t}\n}\n\n"
            "func fn[T any](x T) T { return x }\n\nfunc (r *R) m() {}\n\ntype T int\n\nvar v int\n\nfunc init() {}\n")


def part_kinds(ctx, quick, recs, st):
    reqs, meta = [], {}

    def add(rid, patch):
        reqs.append(dict(id=rid, op="apply", patch=patch, name="s.go", src=KIND_SRC))
        meta[rid] = dict(patch=patch, src=KIND_SRC)

    def pre(sn, c):
        return "".join(c + ln + "\n" for ln in sn.split("\n"))

    for i, sn in enumerate(SNIPPETS):
        add("kind-%d-plus" % i, "@@\n@@\n-foo()\n" + pre(sn, "+"))
        add("kind-%d-ctx" % i, "@@\n@@\n" + pre(sn, " ") + "-foo()\n+bar()\n")
        add("kind-%d-ctx2" % i, "@@\n@@\n-foo()\n+bar()\n" + pre(sn, " "))
        add("kind-%d-minus" % i, "@@\n@@\n" + pre(sn, "-") + "+bar()\n")
        add("kind-%d-both" % i, "@@\nvar x expression\n@@\n" + pre(sn, "-") + pre(sn, "+") + " foo(x)\n")
    for i, sn in enumerate(DECL_SNIPPETS):
        add("decl-%d-minus" % i, "@@\n@@\n" + pre(sn, "-") + "+var replaced = 1\n")
        add("decl-%d-plus" % i, "@@\n@@\n-func init() {}\n" + pre(sn, "+"))
        add("decl-%d-ctx" % i, "@@\n@@\n" + pre(sn, " "))
    # an elision in every slot template (where it is an elision of a list and where it is not)
    for name in sorted(SLOTS):
        tmpl = re.sub(r"\bx\b", "...", SLOTS[name])
        if tmpl == SLOTS[name]:
            continue
        add("dots-%s-plus" % name, "@@\n@@\n-foo()\n" + pre(tmpl, "+"))
        add("dots-%s-minus" % name, "@@\n@@\n" + pre(tmpl, "-") + "+bar()\n")
        add("dots-%s-ctx" % name, "@@\n@@\n" + pre(tmpl, " ") + "-foo()\n+bar()\n")
    REQS.update({r["id"]: r for r in reqs})
    # the command's own steps (printing, import processing, writing) see these trees too
    scs = [dict(id="cli-" + r["id"], files=[dict(path="s.go", content=r["src"]), dict(path="p.patch", content=r["patch"])], dirs=[], symlinks=[],
                args=["-p", "p.patch", "s.go"], stdin="", cwd="", strace=False, timeout_ms=20000) for r in reqs]
    for sc, r in zip(scs, fr.run_cli(ctx, scs, "c08-kinds")):
        if r["timeout"]:
            o, d, s_ = "timeout", "0", "x"
        elif r["exit"] == 0:
            o, d, s_ = "ok", "0", "0"
        elif r["exit"] == 1:
            o, d, s_ = "error", "1" if r["stderr"].strip() else "0", "1"
        elif "panic:" in r["stderr"] or "goroutine " in r["stderr"]:
            o, d, s_ = "panic", "1", "x"
        else:
            o, d, s_ = "killed", "0", "x"
        recs.append(dict(id=sc["id"], outcome=o, diag=d, status=s_, augs=[], pred=[],
                         what=dict(patch=sc["files"][1]["content"], src=sc["files"][0]["content"], exit=r["exit"], stderr=r["stderr"][:500])))
    for req, r in zip(reqs, api_batch(ctx, reqs, "kinds")):
        o, d, s = outcome_of(r["err"])
        recs.append(dict(id=req["id"], outcome=o, diag=d, status=s, augs=[], pred=[], what=meta[req["id"]]))
    st["syntax_kind_cases"] = len(reqs)


# ------------------------------------------------- (ii-b) line directives --
# Small targets whose //line directives claim other (possibly huge) line numbers, in front of and inside the code
# a well-formed change rewrites: the work done must depend on the size of the file, not on the numbers it mentions.
LINE_PATCH = "@@\nvar x identifier\nvar a, b expression\n@@\n-x := foo(a, b)\n+x := 3\n"
LINE_TARGETS = {
    "inside-huge": "package a\n\nfunc f() {\n\tx := foo(1,\n//line x.go:300000000\n\t\t2)\n\t_ = x\n}\n",
    "inside-small": "package a\n\nfunc f() {\n\tx := foo(1,\n//line x.go:100\n\t\t2)\n\t_ = x\n}\n",
    "before-small": "package a\n\nfunc f() {\n//line y.go:100\n\tx := foo(1, 2)\n\t_ = x\n}\n",
    "before-huge": "package a\n\n//line y.go:200000000\nfunc f() {\n\tx := foo(1, 2)\n\t_ = x\n}\n\n//line z.go:900000000\nfunc g() {\n\ty := foo(3,\n\t\t4)\n\t_ = y\n}\n",
    "backwards": "package a\n\n//line y.go:500\nfunc f() {\n\tx := foo(1,\n//line y.go:2\n\t\t2)\n\t_ = x\n}\n",
    "block-comment": "package a\n\nfunc f() {\n\tx := foo(1, /*line w.go:70000000:1*/ 2)\n\ty := foo(1,\n\t\t2)\n\t_, _ = x, y\n}\n",
}


def nested_target(kind, depth):
    """A short file (2 lines per level) in which blocks are nested `depth` deep with an instance on every level."""
    open_, close = {"if": ("if c%d {", "}"), "for": ("for i%d := range xs {", "}"), "block": ("{", "}"),
                    "func": ("run(func() {", "})"), "switch": ("switch {\ncase c%d:", "}"), "else": ("if c%d {\nfoo()\n} else {", "}")}[kind]
    out = ["package a", "", "func f() {"]
    for i in range(depth):
        out.append(open_ % i if "%d" in open_ else open_)
        out.append("foo()")
    out += [close] * depth + ["}", ""]
    return "\n".join(out)


NEST_PATCHES = {"expr": "@@\n@@\n-foo()\n+bar()\n", "stmt": "@@\n@@\n-foo()\n+bar()\n+baz()\n"}


def long_list_target(n, where):
    """A file of about 7 bytes per element with one list of n elements, in or next to the rewritten function."""
    lst = "[]int{" + ", ".join(str(i % 97) for i in range(n)) + "}"
    if where == "same":
        return "package a\n\nfunc f() {\n\tfoo()\n\t_ = %s\n}\n" % lst
    if where == "args":
        return "package a\n\nfunc f() {\n\tfoo()\n\tsum(%s)\n}\n" % lst[6:-1]
    return "package a\n\nvar table = %s\n\nfunc f() {\n\tfoo()\n}\n" % lst


KF_REPEATED = "repeated-metavariables-between-elisions"
KF_REPEATED_PATCH = "@@\nvar x, y, z expression\n@@\n-foo(..., x, ..., y, ..., z, ..., x, ..., y, ..., 9)\n+bar()\n"
KF_REPEATED_SRC = "package a\n\nfunc g() {\n\tfoo(" + ", ".join(str(i % 5) for i in range(300)) + ")\n}\n"


def part_targets(ctx, quick, recs, st):
    scs = []
    # many elisions against a long list of equal elements that cannot match in the end: the number of ways to
    # place the explicit elements grows with (length of the list) ^ (number of elisions)
    for kind, (po, pc), (so, sc_) in (("args", ("g(", ")"), ("g(", ")")), ("elts", ("[]int{", "}"), ("_ = []int{", "}"))):
        for n in (30, 60, 120):
            for mv in (False, True):
                e = "x" if mv else "1"
                ptxt = "@@\n%s@@\n-%s..., %s, 2%s\n+h()\n" % ("var x expression\n" if mv else "", po, ", ".join([e, "..."] * 6), pc)
                src = "package a\n\nfunc f() {\n\t%s%s%s\n}\n" % (so, ", ".join(["1"] * n), sc_)
                scs.append(dict(id="cli-manydots-%s-%d-%s" % (kind, n, "meta" if mv else "lit"), files=[dict(path="s.go", content=src), dict(path="p.patch", content=ptxt)],
                                dirs=[], symlinks=[], args=["--print-only", "-p", "p.patch", "s.go"], stdin="", cwd="", strace=False, timeout_ms=30000,
                                as_limit=3 << 30))
    # ... and with repeated metavariables whose candidates differ (known finding repeated-metavariables-between-elisions)
    scs.append(dict(id="cli-repeated-metas-300", files=[dict(path="s.go", content=KF_REPEATED_SRC), dict(path="p.patch", content=KF_REPEATED_PATCH)],
                    dirs=[], symlinks=[], args=["--print-only", "-p", "p.patch", "s.go"], stdin="", cwd="", strace=False, timeout_ms=15000,
                    as_limit=3 << 30))
    for n in (20, 40):
        src = "package a\n\nfunc g() {\n\tfoo(" + ", ".join(str(i % 5) for i in range(n)) + ")\n}\n"
        scs.append(dict(id="cli-repeated-metas-%d" % n, files=[dict(path="s.go", content=src), dict(path="p.patch", content=KF_REPEATED_PATCH)],
                        dirs=[], symlinks=[], args=["--print-only", "-p", "p.patch", "s.go"], stdin="", cwd="", strace=False, timeout_ms=30000,
                        as_limit=3 << 30))
    # list length: memory and time may grow with the size of the file, not with the square of a list's length
    for where in ("same", "other", "args"):
        for n in (2000, 20000):
            scs.append(dict(id="cli-longlist-%s-%d" % (where, n), files=[dict(path="s.go", content=long_list_target(n, where)), dict(path="p.patch", content=NEST_PATCHES["expr"])],
                            dirs=[], symlinks=[], args=["--print-only", "-p", "p.patch", "s.go"], stdin="", cwd="", strace=False, timeout_ms=30000,
                            as_limit=3 << 30))
    # nesting depth: the time taken may grow with the size of the file, not double with every level
    for kind in ("if", "for", "block", "func", "switch", "else"):
        for depth in (6, 14, 26):
            for pn, ptxt in sorted(NEST_PATCHES.items()):
                scs.append(dict(id="cli-nest-%s-%d-%s" % (kind, depth, pn), files=[dict(path="s.go", content=nested_target(kind, depth)), dict(path="p.patch", content=ptxt)],
                                dirs=[], symlinks=[], args=["--print-only", "-p", "p.patch", "s.go"], stdin="", cwd="", strace=False, timeout_ms=30000,
                                as_limit=3 << 30))
    for name, src in sorted(LINE_TARGETS.items()):
        for mode in ([], ["--print-only"], ["--diff"]):
            scs.append(dict(id="cli-line-%s%s" % (name, "".join(mode)), files=[dict(path="s.go", content=src), dict(path="p.patch", content=LINE_PATCH)],
                            dirs=[], symlinks=[], args=mode + ["-p", "p.patch", "s.go"], stdin="", cwd="", strace=False, timeout_ms=30000,
                            as_limit=3 << 30))
    for sc, r in zip(scs, fr.run_cli(ctx, scs, "c08-line")):
        if r["timeout"]:
            o, d, s_ = "timeout", "0", "x"
        elif r["exit"] == 0:
            o, d, s_ = "ok", "0", "0"
        elif r["exit"] == 1:
            o, d, s_ = "error", "1" if r["stderr"].strip() else "0", "1"
        elif "panic:" in r["stderr"] or "goroutine " in r["stderr"]:
            o, d, s_ = "panic", "1", "x"
        else:
            o, d, s_ = "killed", "0", "x"
        recs.append(dict(id=sc["id"], outcome=o, diag=d, status=s_, augs=[], pred=[],
                         what=dict(patch=sc["files"][1]["content"], src=sc["files"][0]["content"], args=sc["args"], exit=r["exit"], stderr=r["stderr"][:500])))
    st["line_directive_cases"] = len(scs)


# ---------------------------------------------------------------- (iii) fuzz --
def seeds():
    out = []
    for p in sorted(glob.glob(os.path.join(REPO, "testdata", "*"))):
        if os.path.isfile(p):
            txt = open(p, errors="replace").read()
            files, name, buf = {}, None, []
            for line in txt.split("\n"):
                m = re.match(r"^-- (\S+) --$", line)
                if m:
                    if name:
                        files[name] = "\n".join(buf) + "\n"
                    name, buf = m.group(1), []
                elif name is not None:
                    buf.append(line)
            if name:
                files[name] = "\n".join(buf) + "\n"
            patches = [k for k in files if k.endswith(".patch")]
            ins = [k for k in files if k.endswith(".in.go")]
            if patches and ins:
                out.append((os.path.basename(p), files[patches[0]], files[ins[0]]))
    for p in sorted(glob.glob(os.path.join(REPO, "examples", "*.patch"))):
        out.append((os.path.basename(p), open(p).read(), "package a\n\nfunc f() { foo(1) }\n"))
    return out


TOKEN_RE = re.compile(r"\s+|[A-Za-z_]\w*|\d+|\"[^\"\n]*\"|\.\.\.|@@|.", re.S)


def mutate(patch, rng):
    k = rng.randrange(8)
    toks = TOKEN_RE.findall(patch)
    if k == 0:
        return patch[:rng.randrange(len(patch) + 1)]
    if k == 1 and toks:
        i = rng.randrange(len(toks))
        return "".join(toks[:i] + toks[i + 1:])
    if k == 2 and toks:
        i = rng.randrange(len(toks))
        return "".join(toks[:i] + [toks[i]] * rng.randint(2, 4) + toks[i + 1:])
    if k == 3 and len(toks) > 1:
        i, j = rng.randrange(len(toks)), rng.randrange(len(toks))
        toks[i], toks[j] = toks[j], toks[i]
        return "".join(toks)
    if k == 4:
        b = bytearray(patch.encode())
        for _ in range(rng.randint(1, 4)):
            if b:
                b[rng.randrange(len(b))] = rng.randrange(256)
        return b.decode("latin-1")
    if k == 5:
        lines = patch.split("\n")
        i = rng.randrange(len(lines))
        return "\n".join(lines[:i] + lines[i + 1:])
    if k == 6:
        ins = rng.choice(["...", "(", ")", "{", "}", "[", "]", "func", "@@", "\n-", "\n+", "\x00", "var", "package", "import", "`", "\"", "/*", "//", "'", ";", ","])
        i = rng.randrange(len(patch) + 1)
        return patch[:i] + ins + patch[i:]
    lines = patch.split("\n")
    i, j = rng.randrange(len(lines)), rng.randrange(len(lines))
    lines[i], lines[j] = lines[j], lines[i]
    return "\n".join(lines)


def part_fuzz(ctx, quick, recs, st):
    ss = seeds()
    if not ss:
        raise Infra("no seed patches found under %s/testdata" % REPO)
    n = 6000 if quick else 120000
    reqs, meta = [], {}
    # every prefix of a few seeds (truncation at every byte)
    for name, patch, src in ctx.rng.sample(ss, 4 if quick else 25):
        for k in range(0, len(patch), 1):
            rid = "trunc-%s-%d" % (name, k)
            reqs.append(dict(id=rid, op="apply", patch=patch[:k], name="s.go", src=src))
            meta[rid] = dict(patch=patch[:k], src=src)
    for i in range(n):
        name, patch, src = ctx.rng.choice(ss)
        p = patch
        for _ in range(ctx.rng.choice([1, 1, 1, 2, 3])):
            p = mutate(p, ctx.rng)
        if ctx.rng.random() < 0.3:
            src = ctx.rng.choice(ss)[2]
        rid = "fuzz-%d" % i
        reqs.append(dict(id=rid, op="apply", patch=p, name="s.go", src=src))
        meta[rid] = dict(patch=p, src=src, seed=name)
    REQS.update({r["id"]: r for r in reqs})
    for req, r in zip(reqs, api_batch(ctx, reqs, "fuzz")):
        o, d, s = outcome_of(r["err"])
        recs.append(dict(id=req["id"], outcome=o, diag=d, status=s, augs=[], pred=[], what=meta[req["id"]]))
    st["fuzz_cases"] = len(reqs)
    # a sample through the command (exit status and stderr)
    sample = ctx.rng.sample(reqs, 150 if quick else 1500)
    scs = [dict(id="cli-" + r["id"], files=[dict(path="s.go", content=r["src"]), dict(path="p.patch", content=r["patch"])], dirs=[], symlinks=[],
                args=["-p", "p.patch", "s.go"], stdin="", cwd="", strace=False, timeout_ms=20000) for r in sample]
    for sc, r in zip(scs, fr.run_cli(ctx, scs, "c08")):
        if r["timeout"]:
            o, d, s = "timeout", "0", "x"
        elif r["exit"] == 0:
            o, d, s = "ok", "0", "0"
        elif r["exit"] == 1:
            o, d, s = "error", "1" if r["stderr"].strip() else "0", "1"
        elif "panic:" in r["stderr"] or "goroutine " in r["stderr"]:
            o, d, s = "panic", "1", "x"
        else:
            o, d, s = "killed", "0", "x"
        recs.append(dict(id=sc["id"], outcome=o, diag=d, status=s, augs=[], pred=[],
                         what=dict(patch=sc["files"][1]["content"], src=sc["files"][0]["content"], exit=r["exit"], stderr=r["stderr"][:500])))
    st["cli_cases"] = len(scs)


def confirm_timeouts(ctx, recs, reqs_by_id):
    """A watchdog that fires on a loaded machine is not a hang: every input recorded as timeout is run again,
    alone, with a 60 s watchdog; only if it still does not return is it judged as a hang."""
    again = [dict(reqs_by_id[r["id"]], timeout_ms=60000) for r in recs if r["outcome"] == "timeout" and r["id"] in reqs_by_id]
    if not again:
        return 0
    # many timeouts: confirm a few first; if every one of them hangs alone as well, the rest are taken as hangs
    # (re-running thousands of hanging inputs for 60 s each would only delay the verdict)
    if len(again) > 8:
        probe = again[:: max(1, len(again) // 8)][:8]
        pres = api_batch(ctx, probe, "confirm-probe", shards=len(probe))
        if all(outcome_of(x["err"])[0] == "timeout" for x in pres):
            return 0
    res = {x["id"]: x for x in api_batch(ctx, again, "confirm", shards=min(NCPU, len(again)))}
    n = 0
    for r in recs:
        if r["id"] in res:
            o, d, s = outcome_of(res[r["id"]]["err"])
            if o != "timeout":
                n += 1
            r["outcome"], r["diag"], r["status"] = o, d, s
    return n


REQS = {}


def judge(ctx, recs, st):
    st["timeouts_not_confirmed"] = confirm_timeouts(ctx, recs, REQS)
    shards = max(1, min(NCPU, len(recs)))
    idx = [list(range(len(recs)))[i::shards] for i in range(shards)]

    def one(ix):
        tf, of = ctx.path("trace", "c08-%d.ndjson" % ix), ctx.path("trace", "c08-%d.verdicts.ndjson" % ix)
        write_ndjson(tf, [{k: v for k, v in recs[i].items() if k != "what"} for i in idx[ix]])
        ctx.tlc("TraceCrash", CFG_TRACE % (tf, of), "trace-c08-%d" % ix, workers=1, timeout=3000)
        vs = read_ndjson(of)
        if len(vs) != len(idx[ix]):
            raise Infra("TraceCrash: %d records, %d verdicts" % (len(idx[ix]), len(vs)))
        return list(zip(idx[ix], vs))

    st["drift"] = 0
    st["outcomes"] = {}
    for res in pmap(one, range(shards)):
        for i, v in res:
            r = recs[i]
            st["outcomes"][r["outcome"]] = st["outcomes"].get(r["outcome"], 0) + 1
            if v["ieq"] != "1":
                st["drift"] += 1
                if len(ctx.notes) < 5:
                    ctx.notes.append("model drift on %s: real %s, model %s" % (r["what"].get("tokens"), r["augs"], r["pred"]))
            known = load_known("C08")
            if v["viol"] and r["id"] == "cli-repeated-metas-300" and r["outcome"] == "timeout" and KF_REPEATED in known and \
                    (r["what"].get("patch"), r["what"].get("src")) == (KF_REPEATED_PATCH, KF_REPEATED_SRC):
                ctx.known(KF_REPEATED, known[KF_REPEATED], r["id"])
                continue
            if v["viol"]:
                ctx.violation("%s: %s" % (r["id"], ",".join(v["viol"])), dict(kind="crash", id=r["id"], violated=v["viol"], outcome=r["outcome"], **r["what"]))


def run(ctx):
    quick = ctx.tier == "quick"
    known = load_known("C08")
    recs, st = [], dict(states=0, transitions=0)
    part_tokens(ctx, quick, recs, st)
    part_illtyped(ctx, quick, recs, st)
    part_kinds(ctx, quick, recs, st)
    part_targets(ctx, quick, recs, st)
    part_fuzz(ctx, quick, recs, st)
    judge(ctx, recs, st)
    cov = dict(states=st["states"], transitions=st["transitions"], traces_validated_against_impl=len(recs), evaluations=len(recs),
               distinct_nontrivial=len({json.dumps(r["what"], sort_keys=True) for r in recs}), token_strings=st["token_strings"],
               illtyped_cases=st["illtyped_cases"], syntax_kind_cases=st["syntax_kind_cases"], fuzz_cases=st["fuzz_cases"], line_directive_cases=st["line_directive_cases"], cli_cases=st["cli_cases"], outcomes=st["outcomes"],
               model_drift_cases=st["drift"], inputs_tried=len(recs), watchdog_timeouts_not_confirmed_alone=st.get("timeouts_not_confirmed", 0), exhaustive=False,
               samples=[{k: v for k, v in recs[0].items()}, {k: v for k, v in recs[-1].items()}],
               rule="(i) every token string of length <=%d over %d token classes: termination of the scanner model under weak fairness (TLC) and the real augmenter / patch.Parse on the concretised string on both sides of a patch; (ii) %d slot templates x %d binding kinds x expression / identifier metavariable, on the '+' and on the '-' side; one snippet per statement / expression / declaration form of go/ast as '+' side, context line and '-' side; (iii) exploration: every prefix of sampled seed patches and seeded token / byte / line mutations of the testdata and example patches crossed with their inputs, a sample also through the command; distinct = distinct inputs" % (4 if quick else 5, 12, len(SLOTS), len(BINDINGS)))
    return ctx.finish("model_checking", cov, ASSUME)


def replay(ctx, path):
    r = json.load(open(path))
    recs, st = [], dict(states=0, transitions=0)
    if "tokens" in r:
        text = concretise(r["tokens"], ctx.rng) + "\n"
        reqs = [dict(id="replay|aug", op="augment", src=text), dict(id="replay|minus", op="parsepatch", name="t.patch", patch="@@\n@@\n-%s+x\n" % text),
                dict(id="replay|plus", op="parsepatch", name="t.patch", patch="@@\n@@\n-x\n+%s" % text)]
    else:
        reqs = [dict(id="replay", op="apply", patch=r["patch"], name="s.go", src=r["src"])]
    for req, x in zip(reqs, api_batch(ctx, reqs, "replay", shards=1)):
        o, d, s = outcome_of(x["err"])
        print(req["id"], "->", o, x["err"][:300])
        recs.append(dict(id=req["id"], outcome=o, diag=d, status=s, augs=[], pred=[], what=r))
    judge(ctx, recs, st)
    return ctx.finish("model_checking", dict(states=0, transitions=0, traces_validated_against_impl=len(recs), samples=[], rule="replay of one input"), ["replay"])
