"""C13 - a patch means the same however it is laid out."""
import glob, json, os, re
from vlib import VERIF, REPO, load_known, read_ndjson, write_ndjson, pmap, Infra, NCPU

ASSUME = [
    "layout transformations are implemented on patch text in lib/prop_c13.py (T1 comment lines, T2 blank lines, T3 naming the change, T4 renaming metavariables that do not name imports, T5 regrouping/reordering/;-joining declarations, T6 re-spacing both sides identically, T7 context line <-> identical -/+ pair on elision-free lines, T8 context line without its space prefix, T9 context line wrapped after its commas, T10 an empty line written as a lone '-' / '+' pair)",
    "results are compared as terms of harness/alpha.go (syntax trees without positions and comments); errors are compared as error / no error",
    "patches with more than one '...' per side are not re-spaced (their association is documented as layout dependent, README known issue #9)",
]
CFG = """SPECIFICATION Spec
CONSTANTS
  MaxLen = %d
INVARIANT DesignOK
PROPERTY Terminates
CHECK_DEADLOCK FALSE
"""
CFG_EMIT = """SPECIFICATION EmitSpec
CONSTANTS
  MaxLen = %d
  OutFile = "%s"
CHECK_DEADLOCK FALSE
"""
CFG_TRACE = """SPECIFICATION TraceSpec
CONSTANTS
  MaxLen = 1
  TraceFile = "%s"
  OutFile = "%s"
INVARIANT Flush
POSTCONDITION Accepted
CHECK_DEADLOCK FALSE
"""


# ------------------------------------------------------------------ (a) sectioner
def render_kinds(f, rng):
    out = []
    for i, k in enumerate(f, 1):
        if k == "c":
            out.append(rng.choice(["# comment %d", "  # comment %d", "#comment %d", "\t# comment %d", " \t # comment %d"]) % i)
        elif k == "b":
            out.append("")
        elif k == "h":
            out.append(rng.choice(["@@", "@ nm%d @" % i, "@nm%d@" % i]))
        elif k == "m":
            out.append("var v%d expression" % i)
        elif k == "e":
            out.append("@@")
        else:
            out.append(rng.choice([" foo(%d)", "-foo(%d)", "+bar(%d)"]) % i)
    return "\n".join(out) + "\n"


def split_records(ctx, files):
    reqs, texts = [], []
    for i, f in enumerate(files):
        t = render_kinds(f["file"], ctx.rng)
        texts.append(t)
        reqs.append(dict(id="split-%d" % i, op="split", name="s.patch", patch=t))
    inp, outp = ctx.path("c13", "split.in.ndjson"), ctx.path("c13", "split.out.ndjson")
    write_ndjson(inp, reqs)
    ctx.run_vh(["api", "-in", inp, "-out", outp])
    recs = []
    for f, t, r in zip(files, texts, read_ndjson(outp)):
        obs = []
        for c in json.loads(r["out"] or "null") or []:
            desc = []
            for cm in c["Comments"] or []:
                m = re.search(r"comment (\d+)$", cm)
                desc.append(int(m.group(1)) if m else 0)
            obs.append(dict(hdr=c["HeaderLine"], desc=desc, meta=[l["Line"] for l in c["Meta"] or []],
                            body=[l["Line"] for l in c["Patch"] or []]))
        recs.append(dict(id=r["id"], kind="split", file=f["file"], obs=obs, err=r["err"], text=t))
    return recs


# ------------------------------------------------------------------ (b) metamorphic pairs
# hand-written seeds whose lines begin (after the diff marker) with an operator, a closing
# bracket, a string or a keyword: the marker must be cut off as exactly one character
EXTRA_CASES = [
    dict(name="extra/unary-minus-line", patch="@@\nvar x expression\n@@\n report(\n \t-1,\n-\tx,\n+\twrap(x),\n )\n",
         src="package a\n\nfunc f() {\n\treport(-1, a)\n\treport(1, a)\n\treport(-1, b+c)\n}\n"),
    dict(name="extra/unary-minus-first", patch="@@\nvar x expression\n@@\n report(\n -1,\n-x,\n+wrap(x),\n )\n",
         src="package a\n\nfunc f() {\n\treport(-1, a)\n\treport(1, a)\n}\n"),
    dict(name="extra/unary-plus-line", patch="@@\nvar x, y expression\n@@\n sum(x,\n +y,\n-0)\n+1)\n",
         src="package a\n\nfunc f() {\n\tsum(a, +b, 0)\n\tsum(a, b, 0)\n}\n"),
    dict(name="extra/stmt-operators", patch="@@\n@@\n v := compute(\n -offset,\n +limit,\n *ptr,\n &val,\n !ok,\n ^mask,\n <-ch,\n )\n-use(v)\n+use2(v)\n",
         src="package a\n\nfunc f() {\n\tv := compute(-offset, +limit, *ptr, &val, !ok, ^mask, <-ch)\n\tuse(v)\n}\n\nfunc g() {\n\tv := compute(offset, limit, *ptr, &val, !ok, ^mask, <-ch)\n\tuse(v)\n}\n"),
    dict(name="extra/binary-continuation", patch="@@\nvar x, y expression\n@@\n total(x +\n y -\n-1)\n+2)\n",
         src="package a\n\nfunc f() {\n\ttotal(a + b - 1)\n\ttotal(a - b - 1)\n}\n"),
    dict(name="extra/variadics", patch="@@\nvar T identifier\n@@\n type T interface {\n-\tLogf(string, ...any)\n+\tLogf(context.Context, string, ...any)\n \t...\n }\n",
         src="package a\n\ntype Logger interface {\n\tLogf(string, ...any)\n\tClose()\n}\n\ntype Other interface {\n\tLogf(string, any)\n}\n"),
    dict(name="extra/variadic-func-type", patch="@@\nvar x identifier\n@@\n-var x func(...int)\n+var x func(int, ...int)\n",
         src="package a\n\nvar hook func(...int)\n\nvar other func(int)\n"),
    dict(name="extra/variadic-decl-call", patch="@@\nvar f identifier\n@@\n func f(args ...string) {\n-\told(args...)\n+\tnew(args...)\n }\n",
         src="package a\n\nfunc wrap(args ...string) {\n\told(args...)\n}\n\nfunc wrap2(args []string) {\n\told(args...)\n}\n"),
    dict(name="extra/leading-elision", patch="@@\n@@\n ...\n-foo()\n+bar()\n",
         src="package a\n\nfunc f() {\n\tfirst()\n\tsecond()\n\tfoo()\n\tlast()\n}\n"),
    dict(name="extra/elision-between", patch="@@\nvar x identifier\n@@\n x := open()\n ...\n-x.close()\n+x.Close()\n",
         src="package a\n\nfunc f() {\n\tp := open()\n\tuse(p)\n\tmore(p)\n\tp.close()\n\tlast()\n}\n"),
    dict(name="extra/two-elisions-one-line", patch="@@\n@@\n-foo(\n+bar(\n ..., ctx, ...)\n",
         src="package a\n\nfunc f() {\n\tfoo(1, ctx, 2)\n\tfoo(ctx)\n\tfoo(a, b)\n\tfoo(a, b, ctx)\n}\n"),
    dict(name="extra/two-elisions-one-line-ctx", patch="@@\n@@\n-foo(...)\n+foo2(...)\n bar(..., ctx, ...)\n",
         src="package a\n\nfunc f() {\n\tfoo(1, 2)\n\tbar(3, ctx, 4, 5)\n}\n\nfunc g() {\n\tfoo()\n\tbar(ctx)\n}\n"),
    # two changes whose '-' sides are the same text (they differ in the kind of the metavariable), no blank line
    # between them, an elision on the shared side
    dict(name="extra/same-side-twice", patch="@@\nvar a identifier\n@@\n prepare()\n ...\n-check(a)\n+verify(a)\n@@\nvar a expression\n@@\n prepare()\n ...\n-check(a)\n+verify(a)\n",
         src="package a\n\nfunc f() {\n\tprepare()\n\tmid(1)\n\tcheck(w)\n\tmid(2)\n\tcheck(3 + 4)\n}\n\nfunc g() {\n\tprepare()\n\tcheck(5 * 6)\n}\n"),
    dict(name="extra/same-plus-side-twice", patch="@@\nvar a identifier\n@@\n-old1(a, ...)\n+renamed(a, ...)\n@@\nvar a identifier\n@@\n-old2(a, ...)\n+renamed(a, ...)\n",
         src="package a\n\nfunc f() {\n\told1(p, 1, 2)\n\told2(q, 3)\n\told2(r)\n}\n"),
    # three elisions, one metavariable between the first two and again at the end, another one in the middle: how the
    # two names sort must not matter
    dict(name="extra/three-elisions-two-names", patch="@@\nvar a, b expression\n@@\n-f3(..., a, ..., b, ..., a)\n+g3(a, b)\n",
         src="package a\n\nfunc f() {\n\tf3(1, 2, 3, 2)\n\tf3(1, 2, 3, 4)\n\tf3(5, 5)\n}\n"),
    dict(name="extra/three-elisions-two-names-stmts", patch="@@\nvar f, g expression\n@@\n f := open()\n ...\n check(g)\n ...\n-f.Close()\n+f.Shutdown(g)\n",
         src="package a\n\nfunc two() {\n\ta := open()\n\tb := open()\n\tcheck(e2)\n\tb.Close()\n}\n"),
    # an unchanged line inside a raw string literal that spans lines, written once with the space prefix
    # (known finding context-line-inside-raw-string-keeps-its-prefix: identified by this patch and source)
    dict(name="extra/raw-string-context-line", patch="@@\n@@\n-join(`\n+concat(`\n hello\n`, \"x\")\n",
         src="package a\n\nfunc g() string {\n\treturn join(`\nhello\n`, \"x\")\n}\n"),
    dict(name="extra/decrement-stmt", patch="@@\nvar i identifier\n@@\n i--\n-work(i)\n+work2(i)\n i++\n",
         src="package a\n\nfunc f(n int) {\n\tn--\n\twork(n)\n\tn++\n}\n"),
]


KF_RAW = "context-line-inside-raw-string-keeps-its-prefix"


def _kf_raw_input():
    for line in open(os.path.join(VERIF, "known_findings.jsonl")):
        if line.strip():
            e = json.loads(line)
            if e.get("status") == "known" and e.get("key") == KF_RAW:
                return (e["example"]["patch"], e["example"]["src"])
    return None


KF_RAW_INPUT = _kf_raw_input()


def parse_txtar(path):
    files, name, buf = {}, None, []
    for line in open(path).read().split("\n"):
        m = re.match(r"^-- (\S+) --$", line)
        if m:
            if name:
                files[name] = "\n".join(buf) + "\n"
            name, buf = m.group(1), []
        elif name is not None:
            buf.append(line)
    if name:
        files[name] = "\n".join(buf) + "\n"
    for k in files:
        files[k] = files[k].rstrip("\n") + "\n"
    return files


def base_cases(ctx):
    cases = []
    for p in sorted(glob.glob(os.path.join(REPO, "testdata", "*"))):
        if os.path.isdir(p) or p.endswith(".md"):
            continue
        fs = parse_txtar(p)
        patches = [k for k in fs if k.endswith(".patch")]
        if len(patches) != 1:
            continue
        for k in sorted(fs):
            if k.endswith(".in.go"):
                cases.append(dict(name=os.path.basename(p) + "/" + k, patch=fs[patches[0]], src=fs[k]))
    cases += EXTRA_CASES
    return cases


def structure(text):
    """Line indexes of headers, meta lines and body lines per change (mirrors the patch grammar)."""
    lines = text.split("\n")
    if lines and lines[-1] == "":
        lines.pop()
    changes, st, cur = [], "top", None
    for i, ln in enumerate(lines):
        if ln.lstrip().startswith("#"):
            continue
        if st in ("top", "body") and ln.startswith("@"):
            cur = dict(hdr=i, meta=[], end=None, body=[])
            changes.append(cur)
            st = "meta"
        elif st == "meta":
            if ln == "@@":
                cur["end"] = i
                st = "body"
            else:
                cur["meta"].append(i)
        elif st == "body":
            cur["body"].append(i)
    return lines, changes


def ndots(lines, idxs, prefix):
    return sum(lines[i][1:].count("...") for i in idxs if lines[i][:1] in prefix)


def t1_comments(lines, changes, rng):
    out = list(lines)
    for _ in range(rng.randint(1, 3)):
        out.insert(rng.randint(0, len(out)), rng.choice(["# extra", "   # indented extra", "#", "\t# tab-indented extra", " \t# mixed indentation"]))
    return out


def t2_blank(lines, changes, rng):
    out = list(lines)
    spots = [0]
    for c in changes:
        spots += [i + 1 for i in c["meta"]] + [c["hdr"] + 1]
        if c["body"]:
            spots.append(c["body"][-1] + 1)
    for s in sorted(set(rng.sample(spots, min(len(spots), rng.randint(1, 3)))), reverse=True):
        out.insert(s, "")
    return out


def t3_name(lines, changes, rng):
    out = list(lines)
    for k, c in enumerate(changes):
        if out[c["hdr"]] == "@@":
            out[c["hdr"]] = rng.choice(["@ chg%d @", "@chg%d@", "@  chg_%d  @"]) % k
    return out


DECL = re.compile(r"^\s*var\s+([A-Za-z_][\w]*(?:\s*,\s*[A-Za-z_]\w*)*)\s+(identifier|expression)\s*$")


def t4_rename(lines, changes, rng):
    out = list(lines)
    for k, c in enumerate(changes):
        names = []
        for i in c["meta"]:
            m = DECL.match(out[i])
            if m:
                names += [n.strip() for n in m.group(1).split(",")]
        body = "\n".join(out[i] for i in c["body"])
        names = [n for n in names if n != "_" and not re.search(r"\b%s\s+\"" % re.escape(n), body)]
        if not names:
            continue
        n = rng.choice(names)
        new = "mv%d_%s" % (k, n)
        for i in c["meta"] + c["body"]:
            if '"' in out[i] or "`" in out[i] or "'" in out[i]:
                if re.search(r"\b%s\b" % re.escape(n), re.sub(r"\"[^\"]*\"|`[^`]*`|'[^']*'", "", out[i])) is None:
                    continue
                return None       # the name occurs next to a literal: leave this patch alone
            out[i] = re.sub(r"\b%s\b" % re.escape(n), new, out[i])
    return out


def t5_regroup(lines, changes, rng):
    out = list(lines)
    for c in reversed(changes):
        decls = []
        for i in c["meta"]:
            m = DECL.match(out[i])
            if not m:
                decls = None
                break
            decls += [(n.strip(), m.group(2)) for n in m.group(1).split(",")]
        if not decls:
            continue
        rng.shuffle(decls)
        mode = rng.choice(["single", "grouped", "semi"])
        if mode == "single":
            new = ["var %s %s" % d for d in decls]
        elif mode == "grouped":
            new = []
            for ty in ("identifier", "expression"):
                ns = [n for n, t in decls if t == ty]
                if ns:
                    new.append("var %s %s" % (", ".join(ns), ty))
        else:
            new = ["; ".join("var %s %s" % d for d in decls)]
        first = c["meta"][0]
        for i in reversed(c["meta"]):
            del out[i]
        for j, ln in enumerate(new):
            out.insert(first + j, ln)
    return out


def t6_respace(lines, changes, rng):
    out = list(lines)
    for c in changes:
        if ndots(out, c["body"], "-") > 1 or ndots(out, c["body"], "+") > 1:
            return None
        for i in c["body"]:
            ln = out[i]
            if not ln or '"' in ln or "`" in ln or "'" in ln:
                continue
            pre, rest = (ln[0], ln[1:]) if ln[0] in "+- " else ("", ln)
            rest = rest.replace(", ", ",   ").replace(" := ", "  :=  ").replace(" = ", "   =   ").replace(" + ", "  +  ")
            # a variadic "...T" may be written "... T" (an elision is never followed by a name on its line)
            rest = re.sub(r"\.\.\.(?=[A-Za-z_*\[])", "... ", rest)
            out[i] = pre + rest
    return out


def t7_pair(lines, changes, rng):
    out = list(lines)
    did = False
    for c in reversed(changes):
        for i in reversed(c["body"]):
            ln = out[i]
            if ln.startswith(" ") and ln.strip() and "..." not in ln and rng.random() < 0.5:
                out[i:i + 1] = ["-" + ln[1:], "+" + ln[1:]]
                did = True
    return out if did else None


def t8_unprefix(lines, changes, rng):
    """A context line keeps its meaning without its space prefix (the prefix is only white space in front of
    the Go code on both sides) as long as what follows does not start with a diff marker."""
    out = list(lines)
    did = False
    for c in changes:
        for i in c["body"]:
            ln = out[i]
            if ln.startswith(" ") and ln.strip() and ln[1:2] not in ("-", "+", "@", "#") and rng.random() < 0.8:
                out[i] = ln[1:]
                did = True
    return out if did else None


def t9_rewrap(lines, changes, rng):
    """A context line belongs to both sides, so wrapping it after its commas re-wraps both sides identically
    (Go allows a line break after every comma)."""
    out = list(lines)
    did = False
    for c in reversed(changes):
        for i in reversed(c["body"]):
            ln = out[i]
            if ln.startswith(" ") and ", " in ln and not any(q in ln for q in "\"`'") and "//" not in ln:
                parts = ln[1:].split(", ")
                out[i:i + 1] = [" " + p + ("," if k < len(parts) - 1 else "") for k, p in enumerate(parts)]
                did = True
    return out if did else None


def t10_marker_blank(lines, changes, rng):
    """A blank line of the Go code may be written as a lone '-' / '+' pair (an empty line on both sides)."""
    out = list(lines)
    did = False
    for c in reversed(changes):
        body = [i for i in c["body"] if out[i].strip()]
        if len(body) < 2:
            continue
        i = rng.choice(body[1:])
        # not inside a run of '-' / '+' lines (the pair would split the run), not next to an elision line
        if out[i][:1] in "+-" and out[i - 1][:1] in "+-":
            continue
        if "..." in out[i] or "..." in out[i - 1] or any(q in out[i] + out[i - 1] for q in "`"):
            continue
        out[i:i] = ["-", "+"]
        did = True
    return out if did else None


TRANSFORMS = {"T10": t10_marker_blank, "T9": t9_rewrap, "T8": t8_unprefix, "T1": t1_comments, "T2": t2_blank, "T3": t3_name, "T4": t4_rename, "T5": t5_regroup, "T6": t6_respace, "T7": t7_pair}


def variants(ctx, text, n):
    out = []
    names = sorted(TRANSFORMS)
    tries = 0
    # every single transformation once, then seeded compositions of up to three
    singles = [[t] for t in names]
    while (singles or len(out) < n + len(names)) and tries < 6 * n + len(names):
        tries += 1
        seq = singles.pop(0) if singles else [ctx.rng.choice(names) for _ in range(ctx.rng.choice([2, 2, 3]))]
        cur = text
        ok = True
        for t in seq:
            lines, changes = structure(cur)
            if not changes or any(c["end"] is None for c in changes):
                ok = False
                break
            r = TRANSFORMS[t](lines, changes, ctx.rng)
            if r is None:
                ok = False
                break
            cur = "\n".join(r) + "\n"
        if ok and cur != text:
            out.append(("+".join(seq), cur))
    return out


def run(ctx):
    quick = ctx.tier == "quick"
    known = load_known("C13")
    maxlen = 7
    mc = ctx.tlc("Splitter", CFG % maxlen, "mc-splitter", workers=NCPU, timeout=3000)
    out = ctx.path("vec", "kinds.ndjson")
    ctx.tlc("EmitSplitter", CFG_EMIT % (maxlen, out), "emit-splitter", workers=1, timeout=900)
    files = read_ndjson(out)
    recs = split_records(ctx, files)
    # metamorphic pairs
    cases = base_cases(ctx)
    nvar = 6 if quick else 40
    reqs, meta = [], []
    for ci, c in enumerate(cases):
        vs = variants(ctx, c["patch"], nvar)
        reqs.append(dict(id="b%d" % ci, op="apply", patch=c["patch"], name="x.go", src=c["src"]))
        for vi, (tname, vt) in enumerate(vs):
            reqs.append(dict(id="v%d.%d" % (ci, vi), op="apply", patch=vt, name="x.go", src=c["src"]))
            meta.append((ci, vi, tname, vt))
    inp, outp = ctx.path("c13", "apply.in.ndjson"), ctx.path("c13", "apply.out.ndjson")
    write_ndjson(inp, reqs)
    ctx.run_vh(["api", "-in", inp, "-out", outp])
    res = {r["id"]: r for r in read_ndjson(outp)}
    # alpha of all distinct outputs
    outs = sorted({r["out"] for r in res.values() if not r["err"] and r["out"]})
    areqs = [dict(id=str(i), op="alpha", src=o) for i, o in enumerate(outs)]
    inp, outp = ctx.path("c13", "alpha.in.ndjson"), ctx.path("c13", "alpha.out.ndjson")
    write_ndjson(inp, areqs)
    ctx.run_vh(["api", "-in", inp, "-out", outp])
    alpha = {}
    for o, r in zip(outs, read_ndjson(outp)):
        alpha[o] = json.loads(r["out"]) if not r["err"] else dict(k="@unparseable", s=[])
    nil = dict(k="@none", s=[])
    pairs = []
    for ci, vi, tname, vt in meta:
        b, v = res["b%d" % ci], res["v%d.%d" % (ci, vi)]
        pairs.append(dict(id="pair-%d.%d" % (ci, vi), kind="pair", transform=tname, case=cases[ci]["name"],
                          base=alpha.get(b["out"], nil) if not b["err"] else nil,
                          variant=alpha.get(v["out"], nil) if not v["err"] else nil,
                          baseErr="1" if b["err"] else "0", variantErr="1" if v["err"] else "0",
                          descWant="", descGot="", file=[], obs=[],
                          _patch=cases[ci]["patch"], _variant=vt, _src=cases[ci]["src"], _berr=b["err"], _verr=v["err"]))
    for r in recs:
        r.update(base=nil, variant=nil, baseErr="0", variantErr="0", descWant="", descGot="", transform="", case="")
    allrecs = recs + pairs
    shards = NCPU
    parts = [allrecs[i::shards] for i in range(shards)]

    def one(ix):
        tf, of = ctx.path("c13", "trace-%d.ndjson" % ix), ctx.path("c13", "verdicts-%d.ndjson" % ix)
        write_ndjson(tf, [{k: v for k, v in r.items() if not k.startswith("_") and k not in ("err", "text", "transform", "case")} for r in parts[ix]])
        ctx.tlc("TraceSplitter", CFG_TRACE % (tf, of), "trace-c13-%d" % ix, workers=1, timeout=3000)
        vs = read_ndjson(of)
        if len(vs) != len(parts[ix]):
            raise Infra("TraceSplitter: %d records, %d verdicts" % (len(parts[ix]), len(vs)))
        return list(zip(parts[ix], vs))

    results = []
    for r in pmap(one, range(shards)):
        results += r
    bytrans = {}
    nontriv = 0
    for r, v in results:
        if r["kind"] == "pair":
            for t in set(r["transform"].split("+")):
                bytrans[t] = bytrans.get(t, 0) + 1
            if r["baseErr"] == "0" and r["base"]["k"] != "@none":
                nontriv += 1
        if v["viol"]:
            if r["kind"] == "split":
                ctx.violation("%s: %s" % (r["id"], ",".join(v["viol"])),
                              dict(kind="split", id=r["id"], violated=v["viol"], line_kinds=r["file"], patch=r["text"], observed=r["obs"], err=r["err"]))
            elif KF_RAW in known and r["case"] == "extra/raw-string-context-line" and (r["_patch"], r["_src"]) == KF_RAW_INPUT and \
                    set(r["transform"].split("+")) & {"T7", "T8"} and r["baseErr"] == "0" and r["variantErr"] == "0":
                # the recorded defect: identified by its exact base patch and source; the variant writes the line as a
                # pair (T7) or without the prefix (T8) and is the one that matches
                ctx.known(KF_RAW, known[KF_RAW], r["id"])
            else:
                ctx.violation("%s: %s %s on %s" % (r["id"], ",".join(v["viol"]), r["transform"], r["case"]),
                              dict(kind="pair", id=r["id"], violated=v["viol"], transform=r["transform"], case=r["case"], patch=r["_patch"],
                                   variant=r["_variant"], src=r["_src"], base_err=r["_berr"], variant_err=r["_verr"]))
    p0 = pairs[0] if pairs else None
    cov = dict(states=mc["distinct"], transitions=mc["states"], traces_validated_against_impl=len(results),
               samples=[dict(line_kinds=recs[0]["file"], patch=recs[0]["text"], observed=recs[0]["obs"])] +
                       ([dict(transform=p0["transform"], case=p0["case"], patch=p0["_patch"], variant=p0["_variant"])] if p0 else []),
               evaluations=len(results), distinct_nontrivial=len(recs) + nontriv, sectioner_files=len(recs), pairs=len(pairs),
               pairs_with_rewrite=nontriv, pairs_by_transform=bytrans, base_cases=len(cases), exhaustive=False,
               rule="(a) every well-formed file of <=%d line kinds {comment, blank, header, declaration, @@, body}: Splitter.tla machine = declarative structure (TLC exhaustive), each rendered and cut by the real sectioner (verif export) and compared by TLC; (b) every testdata patch x input with %d seeded layout variants (compositions of <=3 of T1..T7): results compared as syntax terms by TLC; non-trivial pair = the base patch rewrites the input" % (maxlen, nvar))
    return ctx.finish("model_checking", cov, ASSUME)
