"""C11 - imports change only as the patch dictates; unrelated imports survive."""
import fam_imports as fi
from vlib import load_known

OWNED = {"UnmentionedKept", "NothingUnmentionedAdded", "PlusPresent", "MinusGoneWhenUnused", "MatchedKeptWhenUsed", "NothingInvented", "NoError", "C03_PlusUnderCapturedName"}
ASSUME = [
    "scenarios of the TLA+ universe are rendered to patch text and Go source by lib/fam_imports.py (4 import layouts incl. several blocks and commented specs, remaining uses as plain and chained selectors, shadowing decoys); imports and remaining uses are read off the real output by go/parser (harness op impobs)",
    "'refers to its package name' = the name occurs as the base of a selector and does not resolve to a local declaration (go/parser object resolution)",
    "a context-line import whose name falls out of use, and a '-' import whose name is provided by a '+' import that the file already had, are not constrained by the statement and are not judged (DESIGN.md section 7)",
    "files with two imports of one path are outside the table",
    "the package an unnamed import provides is named as the Go tools assume from its path (last element; the element before a major version 'vN'): the code of the rendered files refers to example.com/x/v2 as x",
]


def run(ctx):
    quick = ctx.tier == "quick"
    known = load_known("C11")
    pp, op = ["x/p", "x/q"], ["x/o"]
    d = fi.design(ctx, "edits", pp, op, 2, "mc-imports-edits")
    if not quick:
        fi.design(ctx, "edits", ["x/p", "y/p"], ["x/o"], 2, "mc-imports-edits-samebase")
    scs = fi.emit(ctx, "edits", pp, op, 2, 4 if quick else 24, 2 if quick else 6, "edits")
    scs += fi.emit(ctx, "edits", ["x/p", "y/p"], ["x/o", "fmt"], 2, 2 if quick else 12, 2 if quick else 4, "edits-samebase")
    # a path whose last element is a version-like name that IS the package name (k8s.io/api/core/v1 style)
    scs += fi.emit(ctx, "edits", ["x/v2", "x/q"], ["x/o"], 2, 1 if quick else 8, 2 if quick else 4, "edits-vn")
    # the statement is about changes that apply
    scs = [s for s in scs if s["holds"] == "1"]
    meta, lines = fi.run_cases(ctx, scs, "c11", allow_ref=True)
    verdicts = fi.validate(ctx, "c11", meta, lines)
    st = fi.judge(ctx, meta, lines, verdicts, OWNED, known)
    if st["changed"] == 0:
        raise fi.Infra("vacuous run: no change applied")
    cov = dict(states=d["distinct"], transitions=d["states"], traces_validated_against_impl=st["judged"], evaluations=st["judged"],
               distinct_nontrivial=len({(m["patch"], m["src"]) for m in meta}), cases_rewritten=st["changed"],
               model_drift_cases=st["drift"], known_finding_cases=st["kf"], exhaustive=False,
               samples=[dict(patch=meta[0]["patch"], src=meta[0]["src"], out=meta[0]["out"], verdict=verdicts[0]),
                        dict(patch=meta[-1]["patch"], src=meta[-1]["src"], out=meta[-1]["out"], verdict=verdicts[-1])],
               rule="design: every change of <=2 import lines (context / '-' / '+', 6 forms, 2 paths; also two paths providing the same package name) x every file (3 paths x absent / 5 names) x every set of names still in use, checked by TLC against the statement (2.4 million scenarios); replay: TLC-chosen sample of those, rendered with a plain or a package-qualified code pattern; distinct = distinct (patch text, source text)")
    return ctx.finish("model_checking", cov, ASSUME)


def replay(ctx, path):
    return fi.replay(ctx, path, OWNED, "C11")
