"""C06 - no match means no effect."""
import json, os
import fam_run as fr
from vlib import load_known, VERIF

PREDS = {"C06_NoMatchNoEffect", "C06_ExitZero"}
ASSUME = [
    "strace reports every file-mutating system call of the traced process tree",
    "SHA-256, size, mtime, inode and mode from lstat are the observers for 'untouched'",
    "the abstraction of stdout/stderr into per-file parts (harness/lib) is faithful; unrecognised output is reported as 'other' and fails the predicates",
    "file kinds are realised by the fixed contents in lib/fam_run.py (several layouts per kind, chosen by seed)",
]


def run(ctx):
    quick = ctx.tier == "quick"
    known = load_known("C06")
    fr.design_check(ctx, 2 if quick else 3)
    ref = fr.reference_outputs(ctx)
    # every flag combination x runs of 1..2 files (3 in thorough) in which at least one file is unmatched
    scs = [s for s in fr.enumerate_scenarios(2 if quick else 3, faults=["none"]) if "nomatch" in s["kinds"] or
           ("generated" in s["kinds"] and s["flags"]["skipGenerated"])]
    if quick:
        scs = [scs[i] for i in sorted(ctx.rng.sample(range(len(scs)), 320))]
    elif len(scs) > 6000:
        scs = [scs[i] for i in sorted(ctx.rng.sample(range(len(scs)), 6000))]
    real = [fr.realise(ctx, s, "c06-%d" % i, ctx.rng) for i, s in enumerate(scs)]
    recs = fr.run_cli(ctx, real, "c06")
    results = fr.validate(ctx, "c06", recs, ref)
    st = fr.judge(ctx, results, PREDS, known)
    # library half: File.Apply on a file nothing matches returns the very bytes it was given
    import fam_emit as fe
    ust = fe.unmatched_identity(ctx, known, quick)
    # ... also for syntactically rich files and every pattern of the near-miss / interaction corpora that has
    # no instance in them (decided by the P-layer of Pattern.tla in TLC)
    import fam_rewrite as frw
    vecs = frw.text_vectors(ctx, "corpus/nearmiss/vectors.json", "C06") + frw.text_vectors(ctx, "corpus/inter/vectors.json", "C06")
    vecs = [v for v in vecs if not v.get("header")]
    # (quick: a seeded sample, but always the patterns that begin with a metavariable - those bind
    #  before anything can be rejected, on every node of the file)
    #  before anything can be rejected, on every node of the file - and the patterns with elisions: lists that
    #  are too short for them are where the search for a place must give up without fuss)
    raw = {v["id"]: v for v in json.load(open(os.path.join(VERIF, "corpus/nearmiss/vectors.json"))) + json.load(open(os.path.join(VERIF, "corpus/inter/vectors.json")))}
    early = [v for v in vecs if "meta" in v["id"] or "..." in raw.get(v["id"], {}).get("minus", "")]
    rest = [v for v in vecs if v not in early]
    rich = frw.on_files(vecs if not quick else early + frw.sample(ctx, rest, 20),
                        ["corpus/rich/r1.go", "corpus/rich/r2.go", "corpus/inter/inter.go", "corpus/nearmiss/nm_stmt.go",
                         "corpus/nearmiss/nm_expr.go", "corpus/nearmiss/nm_decl.go"], "no-match identity")
    nst = frw.nomatch_identity(ctx, frw.replay_and_judge(ctx, "nomatch", rich, None, shards=16))
    if nst["unmatched"] == 0:
        raise fr.Infra("vacuous: no unmatched (pattern, file) pair")
    mc = [r for r in ctx.tlc_runs if r["name"] == "mc-pipeline"][0]
    r0 = results[0]
    cov = dict(states=mc["distinct"], transitions=mc["states"], traces_validated_against_impl=st["runs"],
               samples=[dict(id=r0[0]["id"], scenario=r0[0]["meta"]["sc"], observed=r0[1], verdict=r0[2]["viol"])],
               evaluations=st["runs"], distinct_nontrivial=len({json_key(r[0]["meta"]["sc"]) for r in results}),
               model_drift_runs=st["drift"], library_unmatched_cases=ust["cases"], library_pattern_file_pairs=nst["cases"], library_pairs_without_instance=nst["unmatched"], trace_rejected_runs=st["stuck"], exhaustive=False,
               rule="design: all runs of <=%d files x 6 kinds x 32 flag combinations x fault points (TLC, exhaustive); replay: scenarios with at least one unmatched file (7 layouts incl. CRLF, non-gofmt, odd comments, build tags, near-misses), seeded sample in quick; distinct = distinct (kinds, flags) scenarios" % (2 if quick else 3))
    return ctx.finish("model_checking", cov, ASSUME)


def json_key(sc):
    import json
    return json.dumps(sc, sort_keys=True)
