"""Rewrite family: C01, C02, C03, C04, C05.

Pipeline per universe:
  1. TLC design check  I => P  on spec/MCRewrite.tla (exhaustive in the bounds)
  2. TLC emits the same universe as vectors (spec/EmitRewrite.tla)
  3. harness replays vectors into the real patch.Parse/File.Apply -> cases
  4. TLC validates the recorded cases against the P-layer (spec/TraceRewrite.tla)
"""
import json, os, subprocess
from vlib import Ctx, Infra, read_ndjson, write_ndjson, pmap, show_term, load_known, NCPU

CFG_MC = """SPECIFICATION Spec
CONSTANTS
  Universe = "%(u)s"
  MaxArgs = %(maxargs)d
  MaxList = %(maxlist)d
INVARIANT DesignOK
ALIAS Show
CHECK_DEADLOCK FALSE
"""
CFG_EMIT = """SPECIFICATION Spec
CONSTANTS
  Universe = "%(u)s"
  MaxArgs = %(maxargs)d
  MaxList = %(maxlist)d
  PairsFile = "%(pairs)s"
  SubjectsFile = "%(subjects)s"
CHECK_DEADLOCK FALSE
"""
CFG_TRACE = """SPECIFICATION Spec
CONSTANTS
  CasesFile = "%(cases)s"
  OutFile = "%(out)s"
INVARIANT Flush
POSTCONDITION Accepted
CHECK_DEADLOCK FALSE
"""

UCLASS = {"expr": "expr", "meta": "expr", "multi": "expr", "params": "expr", "fields": "expr", "args": "expr", "elts": "expr", "stmts": "stmts"}


def metas_of(t, acc):
    if t["k"] == "@meta":
        acc[t["s"][0]["a"]] = t["s"][1]["a"]
        return
    for sl in t["s"]:
        for e in sl["v"]:
            metas_of(e, acc)


def count_dots(t):
    if t["k"] == "@dots":
        return 0 if t["s"][0]["a"] in ("pre", "post") else 1
    return sum(count_dots(e) for sl in t["s"] for e in sl["v"])


def universe_vectors(ctx, u, bounds, prop):
    """Design check + emission for one universe. Returns (vectors, subjects_file, nsubjects)."""
    args = dict(u=u, **bounds)
    r = ctx.tlc("MCRewrite", CFG_MC % args, "mc-" + u, workers=NCPU, timeout=3000, allow_violation=True)
    if r["violated"]:
        # A design-level counterexample is a defect of the I-layer model, not a
        # verdict about the code: report as infrastructure failure.
        raise Infra("design check I=>P violated in universe %s (model bug?):\n%s" % (u, r["out"][-3000:]))
    pairs = ctx.path("vec", u + "-pairs.ndjson")
    subjects = ctx.path("vec", u + "-subjects.ndjson")
    ctx.tlc("EmitRewrite", CFG_EMIT % dict(args, pairs=pairs, subjects=subjects), "emit-" + u, workers=1, timeout=600)
    vecs = []
    for i, p in enumerate(read_ndjson(pairs)):
        m = {}
        metas_of(p["pat"], m)
        nd = max(count_dots(p["pat"]), count_dots(p["plus"]))
        if u in ("params", "fields") and nd > 1:
            # the list sits inside a call argument, so its elisions cannot be put on context lines of their
            # own; several '...' on '-'/'+' lines are not constrained by the statement (DESIGN section 7)
            continue
        layout = "ctx" if (u == "stmts" or nd > 1) else "minus-first"
        vecs.append(dict(id="%s-%d" % (u, i + 1), prop=[prop], **{"class": UCLASS[u]},
                         metas=[dict(name=k, kind=v) for k, v in sorted(m.items())],
                         pat=p["pat"], plus=p["plus"], use_subjects=True, tmpl="one", layout=layout,
                         note="universe " + u))
    nsub = sum(1 for _ in open(subjects))
    return vecs, subjects, nsub


def replay_and_judge(ctx, name, vecs, subjects_file, shards):
    """Run vectors through the real code and judge them with TLC. Returns list of (case, verdict)."""
    if not vecs:
        return []
    shards = max(1, min(shards, len(vecs)))
    parts = [vecs[i::shards] for i in range(shards)]

    def one(ix):
        vf = ctx.path("replay", "%s-%d.vec.ndjson" % (name, ix))
        cf = ctx.path("replay", "%s-%d.cases.ndjson" % (name, ix))
        of = ctx.path("replay", "%s-%d.verdicts.ndjson" % (name, ix))
        write_ndjson(vf, parts[ix])
        a = ["rewrite", "-in", vf, "-out", cf]
        if subjects_file:
            a += ["-subjects", subjects_file]
        ctx.run_vh(a)
        if os.environ.get("VERIF_SELFTEST") == "corrupt" and ix == 0:
            # falsify one recorded execution: the first case that was rewritten is recorded as left unchanged
            cs = read_ndjson(cf)
            for c in cs:
                if c.get("changed") == "1" and not c.get("err"):
                    c["out"] = c["in"]
                    break
            write_ndjson(cf, cs)
        ctx.tlc("TraceRewrite", CFG_TRACE % dict(cases=cf, out=of), "trace-%s-%d" % (name, ix), workers=1, timeout=3000)
        # (read line by line, dropping the recorded trees of input and output at once: TLC has judged them and
        #  nothing reads them afterwards; a thorough run held 10 GB of them)
        cases = []
        with open(cf) as f:
            for line in f:
                line = line.strip()
                if line:
                    c = json.loads(line)
                    c.pop("in", None)
                    c.pop("out", None)
                    cases.append(c)
        verdicts = read_ndjson(of)
        if len(cases) != len(verdicts) or len(cases) != len(parts[ix]):
            raise Infra("trace %s-%d: %d vectors, %d cases, %d verdicts" % (name, ix, len(parts[ix]), len(cases), len(verdicts)))
        os.remove(cf)
        return list(zip(cases, verdicts))

    ctx.build_harness()
    out = []
    for r in pmap(one, range(shards), workers=min(shards, NCPU)):
        out.extend(r)
    return out


def classify(ctx, results, known, accept_classes=None, stmt_wrongrepl=False):
    """Turn verdict records into violations / known findings. Returns stats."""
    st = dict(cases=0, ok=0, failing=0, errors=0, drift=0, sites_failed=0, sites=0, nontrivial=0, changed=0)
    for c, v in results:
        st["cases"] += 1
        st["sites"] += v.get("sites", 0)
        if v.get("sites", 0) > 0:
            st["nontrivial"] += 1
        if c.get("changed") == "1":
            st["changed"] += 1
        if v["ieq"] != "1":
            st["drift"] += 1
        if v["ok"] == "1":
            st["ok"] += 1
            continue
        st["failing"] += 1
        unknown = []
        for f in v["fails"]:
            st["sites_failed"] += 1
            if accept_classes is not None and f["c"] not in accept_classes and \
                    not (stmt_wrongrepl and f["c"] == "wrongrepl" and c.get("class") == "stmts"):
                continue
            if f["known"] and f["known"].split("/", 1)[1] in known:
                key = f["known"].split("/", 1)[1]
                ctx.known(key, known[key], "vector %s: -%s +%s" % (c["id"], show_term(c["pat"]), show_term(c["plus"])))
            else:
                unknown.append(f)
        if c["err"]:
            st["errors"] += 1
            if not c.get("note", "").startswith("universe") and not c["err"].startswith("parse:"):
                # whole-file vectors may legitimately end in a reported error
                # (a pattern that also matches type positions): not judged here.  A patch of the corpus that
                # cannot even be LOADED is judged: every corpus vector is a well-formed patch
                st["skipped_errors"] = st.get("skipped_errors", 0) + 1
                unknown = []
        if unknown:
            ctx.violation("%s: %s on -%s +%s" % (c["id"], ",".join(sorted({f["c"] for f in unknown})),
                                                 show_term(c["pat"]), show_term(c["plus"])),
                          dict(kind="rewrite", id=c["id"], patch=c["patch"], src=c["src"], got=c["got"],
                               err=c["err"], fails=unknown, note=c.get("note", "")))
    return st


def text_vectors(ctx, jsonfile, prop):
    """Hand-written / corpus vectors in text form -> abstract vectors (via vh textvec)."""
    import vlib
    out = ctx.path("vec", os.path.basename(jsonfile) + ".ndjson")
    vh = ctx.build_harness()
    r = subprocess.run([vh, "textvec", "-in", jsonfile, "-out", out], cwd=vlib.VERIF, capture_output=True, text=True, env=vlib.GOENV)
    if r.returncode != 0:
        raise Infra("textvec %s: %s" % (jsonfile, r.stderr))
    vecs = read_ndjson(out)
    # vectors about a bare block nested in a rewritten statement list hit the recorded defect bare-nested-block
    # (known for C01 and C03, whose statements it contradicts); they are replayed where that defect is on record
    # and for C05 (nothing outside a rewritten fragment may change), not for the other properties
    vecs = [v for v in vecs if not (v["id"].startswith("in-nested-") and prop not in ("C01", "C03", "C05"))]
    for v in vecs:
        v["prop"] = [prop]
    return vecs


def on_files(vecs, files, tag):
    """Apply (P, Q) vectors to whole corpus files instead of the subject template."""
    import vlib
    out = []
    for v in vecs:
        for f in files:
            w = dict(v)
            w.pop("use_subjects", None)
            w.pop("tmpl", None)
            w["src"] = open(os.path.join(vlib.VERIF, f)).read()
            w["id"] = "%s@%s" % (v["id"], os.path.basename(f))
            w["note"] = tag
            out.append(w)
    return out


def mc_counts(ctx):
    states = trans = 0
    for r in ctx.tlc_runs:
        if r["name"].startswith("mc-"):
            states += r["distinct"]
            trans += r["states"]
    return states, trans


def sample(ctx, vecs, n):
    if n is None or n >= len(vecs):
        return list(vecs)
    idx = sorted(ctx.rng.sample(range(len(vecs)), n))
    return [vecs[i] for i in idx]


def short_sample(res):
    c, v = res
    return dict(id=c["id"], patch=c["patch"], sites=v.get("sites", 0), verdict=v["fails"], output_head=c["got"][:300])


def nomatch_identity(ctx, results):
    """C06 on the library route: a case in which the P-layer finds no instance of the '-' pattern anywhere
    (or whose package / import guard fails) must return the input bytes themselves, without an error."""
    st = dict(cases=0, unmatched=0)
    for c, v in results:
        st["cases"] += 1
        if v.get("psites", 1) != 0 or c["err"].startswith("harness:"):
            continue
        st["unmatched"] += 1
        if c["err"] or c.get("changed") == "1":
            ctx.violation("%s: no instance of the pattern in the file, but %s" % (c["id"], "error: " + c["err"][:120] if c["err"] else "the bytes changed"),
                          dict(kind="rewrite", id=c["id"], patch=c["patch"], src=c["src"], got=c["got"], err=c["err"], note="no-match identity"))
    return st
