"""C04 - elision matches any run and reproduces it unchanged."""
import fam_rewrite as fr
from vlib import load_known

ASSUME = [
    "go/parser and go/printer (observers) are correct",
    "harness abstraction alpha and its inverse (self-checked by round trip on every vector)",
    "TLC evaluates Pattern.tla faithfully",
    "elided runs are compared modulo independently rewritten nested instances (DESIGN section 7)",
    "multi-elision association is exercised only with the elisions on context lines (unconstrained layouts are not judged)",
]


def run(ctx):
    quick = ctx.tier == "quick"
    bounds = dict(maxargs=3 if quick else 4, maxlist=4 if quick else 5)
    known = load_known("C04")
    results, states, trans, nvec = [], 0, 0, 0
    samples = []
    for u in ("args", "elts", "stmts", "multi", "params", "fields"):
        b = bounds
        if u == "multi":
            b = dict(maxargs=2, maxlist=4 if quick else 5)
        elif u in ("params", "fields"):
            b = dict(maxargs=3, maxlist=3 if quick else 4)
        vecs, subj, nsub = fr.universe_vectors(ctx, u, b, "C04")
        nvec += len(vecs)
        res = fr.replay_and_judge(ctx, u, vecs, subj, shards=16)
        results += res
        samples.append(dict(universe=u, patch=res[0][0]["patch"], nsubjects=nsub, sample_output=res[0][0]["got"][:400]))
    inter = [v for v in fr.text_vectors(ctx, "corpus/inter/vectors.json", "C04") if "..." in v.get("note", "") or True]
    results += fr.replay_and_judge(ctx, "inter", inter, None, shards=8)
    st = fr.classify(ctx, results, known)
    for r in ctx.tlc_runs:
        if r["name"].startswith("mc-"):
            states += r["distinct"]
            trans += r["states"]
    cov = dict(states=states, transitions=trans, traces_validated_against_impl=st["cases"], samples=samples,
               exhaustive=True, evaluations=st["cases"], model_drift_cases=st["drift"],
               rule="every pattern list over {a,b,x,...} up to length %(maxargs)d with >=1 elision (no adjacent elisions) x every list over {a,b} up to length %(maxlist)d, in call arguments, composite-literal elements, statement blocks, parameter lists and struct field lists (the last two with one elision per list); one recorded execution per pattern (all lists as sites of one file)" % bounds,
               cases_failing=st["failing"], sites_failed=st["sites_failed"])
    return ctx.finish("model_checking", cov, ASSUME)
