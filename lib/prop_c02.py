"""C02 - metavariables bind by kind and bind consistently."""
import fam_rewrite as fr
from vlib import load_known

ASSUME = [
    "go/parser and go/printer (observers) are correct",
    "harness abstraction alpha and its inverse (self-checked by round trip on every generated vector)",
    "TLC evaluates Pattern.tla faithfully; verdicts are P-layer predicates evaluated on recorded real executions",
    "comparison is modulo ParenExpr (the printer inserts the parentheses an instantiated tree needs)",
]


def run(ctx):
    quick = ctx.tier == "quick"
    bounds = dict(maxargs=2, maxlist=3)
    known = load_known("C02")
    vecs, subj, nsub = fr.universe_vectors(ctx, "meta", bounds, "C02")
    results = fr.replay_and_judge(ctx, "meta", vecs, subj, shards=16)
    # metavariable patterns against whole files: state must not leak between
    # the hundreds of match attempts made while scanning a file
    rich = fr.on_files(fr.sample(ctx, vecs, 16 if quick else None), ["corpus/rich/r1.go", "corpus/rich/r2.go", "corpus/nearmiss/nm_expr.go"], "rich corpus")
    results += fr.replay_and_judge(ctx, "rich", rich, None, shards=8)
    mvecs, msubj, _ = fr.universe_vectors(ctx, "multi", dict(maxargs=2, maxlist=4 if quick else 5), "C02")
    results += fr.replay_and_judge(ctx, "multi", mvecs, msubj, shards=8)
    results += fr.replay_and_judge(ctx, "inter", fr.text_vectors(ctx, "corpus/inter/vectors.json", "C02"), None, shards=8)
    st = fr.classify(ctx, results, known)
    states, trans = fr.mc_counts(ctx)
    cov = dict(states=states, transitions=trans, traces_validated_against_impl=st["cases"],
               samples=[fr.short_sample(results[0]), fr.short_sample(results[-1])],
               evaluations=st["cases"], distinct_nontrivial=st["nontrivial"], sites_judged=st["sites"],
               exhaustive=True, universe_pairs=len(vecs), universe_subjects=nsub, model_drift_cases=st["drift"],
               rule="every pair of the meta universe (repeated metavariables of both kinds, undeclared look-alike names) x every subject built from equal / almost-equal / different fillers; plus pairs x rich files; non-trivial = at least one instance in the input",
               cases_failing=st["failing"], sites_failed=st["sites_failed"])
    return ctx.finish("model_checking", cov, ASSUME)
