"""C12 - dry-run modes never write, and all output modes agree."""
import fam_run as fr
import fam_emit as fe
from run_common import coverage, pick
from vlib import load_known

# C18_PlainProcessed: a file that a change applies to gets its diff / its new text on standard output in the dry
# modes - also when another file of the run fails (what the modes emit for a file must agree with what the default
# mode writes for it, whatever happens to the other files)
PREDS = {"C12_DryRunNeverWrites", "C12_DescriptionsOnStderrOnly", "C12_StdoutIsOutputOnly", "C18_PlainProcessed"}
ASSUME = [
    "strace reports every file-mutating system call; the tree digest (sha, size, mtime, inode, mode, entry set) is taken before and after",
    "harness/api.go ApplyUnifiedDiff is a strict applier (context and '-' lines must match the original byte for byte)",
]


def run(ctx):
    quick = ctx.tier == "quick"
    known = load_known("C12")
    fr.design_check(ctx, 2 if quick else 3)
    ref = fr.reference_outputs(ctx)
    scs = [s for s in fr.enumerate_scenarios(2, faults=["none"]) if s["flags"]["diff"] or s["flags"]["print"]]
    scs = pick(ctx, scs, 400 if quick else None)
    real = [fr.realise(ctx, s, "c12-%d" % i, ctx.rng) for i, s in enumerate(scs)]
    recs = fr.run_cli(ctx, real, "c12")
    results = fr.validate(ctx, "c12", recs, ref)
    st = fr.judge(ctx, results, PREDS, known)
    mst = fe.modes_agree(ctx, known, quick)
    cov = coverage(ctx, results, st,
                   "dry-run scenarios: runs of <=2 files x 6 kinds x the 24 flag combinations with --diff or --print-only (strace + tree digest); mode agreement: for each (patch, file, flags) the bytes written, printed, reconstructed from the diff and returned by the API are compared",
                   dict(mode_agreement_cases=mst["cases"], mode_agreement_nontrivial=mst["changed"]))
    return ctx.finish("model_checking", cov, ASSUME)
