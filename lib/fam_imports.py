"""Import family: C10 (package / import guards) and C11 (imports change only as dictated).

  1. TLC design check of spec/Imports.tla: the transcription of engine/import.go
     (I) against the statements (P) for every scenario of the bounded universe
  2. scenarios emitted by TLC (spec/EmitImports.tla) are rendered as patch text
     and Go source, run through the real patch.Parse / File.Apply
  3. an independent observer (go/parser; harness op impobs) reads the imports, the
     names still in use and the rewritten code off input and output; TLC
     (spec/TraceImports.tla) judges every recorded execution with the P-layer.
"""
import json, os
from vlib import Infra, read_ndjson, write_ndjson, pmap, NCPU

REAL = {"x/v2": "example.com/x/v2", "x/p": "example.com/x/p", "y/p": "example.com/y/p", "x/q": "example.com/x/q", "x/o": "example.com/x/o", "fmt": "fmt"}
ABS = {v: k for k, v in REAL.items()}
BASE = {"x/v2": "x", "x/p": "p", "y/p": "p", "x/q": "q", "x/o": "o", "fmt": "fmt"}

CFG_MC = """SPECIFICATION Spec
CONSTANTS
  PatchPaths = {%(pp)s}
  OtherPaths = {%(op)s}
  MaxPatchImps = %(n)d
  Mode = "%(mode)s"
INVARIANT DesignC10
INVARIANT DesignC11
INVARIANT DesignUntouched
CHECK_DEADLOCK FALSE
"""
CFG_EMIT = """SPECIFICATION EmitSpec
CONSTANTS
  PatchPaths = {%(pp)s}
  OtherPaths = {%(op)s}
  MaxPatchImps = %(n)d
  Mode = "%(mode)s"
  OutFile = "%(out)s"
  PerPatch = %(perpatch)d
  PerFile = %(perfile)d
  Pairs = "%(pairs)s"
CHECK_DEADLOCK FALSE
"""
CFG_TRACE = """SPECIFICATION TraceSpec
CONSTANTS
  PatchPaths = {"x/p", "y/p", "x/q", "x/v2"}
  OtherPaths = {"x/o", "fmt"}
  MaxPatchImps = 3
  Mode = "edits"
  TraceFile = "%(trace)s"
  OutFile = "%(out)s"
INVARIANT Flush
POSTCONDITION Accepted
CHECK_DEADLOCK FALSE
"""


def q(l):
    return ", ".join('"%s"' % x for x in l)


def design(ctx, mode, pp, op, n, name):
    return ctx.tlc("Imports", CFG_MC % dict(pp=q(pp), op=q(op), n=n, mode=mode), name, workers=NCPU, timeout=3000)


def emit(ctx, mode, pp, op, n, perpatch, perfile, name, pairs=False):
    out = ctx.path("vec", name + ".ndjson")
    ctx.tlc("EmitImports", CFG_EMIT % dict(pp=q(pp), op=q(op), n=n, mode=mode, out=out, perpatch=perpatch, perfile=perfile, pairs="1" if pairs else "0"),
            "emit-" + name, workers=1, timeout=3000, extra=["-seed", str(ctx.seed)])
    return read_ndjson(out)


# ------------------------------------------------------------------ rendering --
def usable(n):
    return n not in ("", ".", "_")


def code_name(pi):
    """the name the code of the patch uses for the package of import line pi"""
    if pi["form"] == "unnamed":
        return BASE[pi["path"]]
    return pi["name"] if usable(pi["name"]) else None


def imp_line(name, path):
    return "import %s%s" % (name + " " if name else "", json.dumps(REAL[path]))


def render_patch(sc, code, stmts=False, decl=False, exprmeta=False):
    metas = sorted({pi["name"] for pi in sc["pimps"] if pi["form"] == "meta"})
    out = ["@@"]
    if metas:
        # an import name may also be declared as an expression metavariable; the statement defines "any name or
        # none" for identifier metavariables only, so that spelling is used where the file names the import
        fnames = {f["path"]: f["name"] for f in sc.get("fimps", [])}
        named = all(fnames.get(pi["path"], "x") != "" for pi in sc["pimps"] if pi["form"] == "meta" and pi["side"] in ("ctx", "minus"))
        out.append("var %s %s" % (", ".join(metas), "expression" if (exprmeta and named and "fimps" in sc) else "identifier"))
    out.append("@@")
    if sc["pkg"]:
        out.append(" package " + sc["pkg"])
        out.append("")
    sign = {"ctx": " ", "minus": "-", "plus": "+"}
    for pi in sc["pimps"]:
        out.append(sign[pi["side"]] + imp_line(pi["name"] if pi["form"] != "unnamed" else "", pi["path"]))
    if sc["pimps"]:
        out.append("")
    if decl:
        # the code pattern is a complete top-level declaration (no elision anywhere)
        out += ["-func oldDecl() {", "-\t" + code[0], "-}", "+func oldDecl() {", "+\t" + code[1], "+}"]
        return "\n".join(out) + "\n"
    out.append("-" + code[0])
    out.append("+" + code[1])
    if stmts:
        # a second statement: the '-' expression is then promoted to a statement list by the patch parser
        out.append("+done()")
    return "\n".join(out) + "\n"


def choose_code(sc, rng, allow_ref):
    """(minus, plus, statement in the file).  'plain' never mentions a package; 'ref' calls through
    the guarded package (docs/PatchesInDepth.md style) so that the rewrite changes what is used."""
    plain = ("foo()", "bar()", "foo()", None)
    if not allow_ref:
        return plain
    guards = [pi for pi in sc["pimps"] if pi["side"] in ("ctx", "minus")]
    if not guards or rng.random() < 0.4:
        return plain
    g = guards[0]
    a = code_name(g)
    if a is None:
        return plain
    # a name that another import line of the patch declares as a metavariable would be that metavariable in
    # the code of the patch, not the literal package name (x/p and y/p share the name p): no such patch is written
    metas = {pi["name"] for pi in sc["pimps"] if pi["form"] == "meta"}
    if g["form"] != "meta" and a in metas:
        return plain
    fa = a
    if g["form"] == "meta":
        fi = [f for f in sc["fimps"] if f["path"] == g["path"]]
        if fi:
            ln = fi[0]["name"] or BASE[fi[0]["path"]]
            if not usable(ln):
                return plain
            fa = ln
    b, fb = a, fa
    plus = [pi for pi in sc["pimps"] if pi["side"] == "plus"]
    if plus and code_name(plus[0]) is not None and not (plus[0]["form"] != "meta" and code_name(plus[0]) in metas):
        b = fb = code_name(plus[0])
        if plus[0]["form"] == "meta":
            # a metavariable: in the output it is the name it was bound to by the '-'/context import line of that name
            gb = [pi for pi in guards if pi["form"] == "meta" and pi["name"] == b]
            fi = [f for f in sc["fimps"] if gb and f["path"] == gb[0]["path"]]
            fb = (fi[0]["name"] or BASE[fi[0]["path"]]) if fi else None
    want = "%s.New" % fb if fb and usable(fb) else None
    if g["form"] == "meta" and rng.random() < 0.3:
        # the metavariable that the import line binds occurs in the '+' code only
        return ("foo()", "%s.New()" % a, "foo()", "%s.New" % fa)
    return ("%s.Old()" % a, "%s.New()" % b, "%s.Old()" % fa, want)


LAYOUTS = ["group", "singles", "blocks", "commented", "lead"]


def render_file(sc, stmt, rng):
    layout = rng.choice(LAYOUTS)
    imps = sc["fimps"]
    out = ["// Package a is a test subject.", "package a", ""]
    spec = lambda f: "%s%s" % (f["name"] + " " if f["name"] else "", json.dumps(REAL[f["path"]]))
    if imps:
        if layout == "group" or (layout == "blocks" and len(imps) < 2):
            out.append("import (")
            out += ["\t" + spec(f) for f in imps]
            out.append(")")
        elif layout == "singles":
            out += ["import " + spec(f) for f in imps]
        elif layout == "blocks":
            k = rng.randint(1, len(imps) - 1)
            for part in (imps[:k], imps[k:]):
                out.append("import (")
                out += ["\t" + spec(f) for f in part]
                out.append(")")
                out.append("")
        elif layout == "lead":
            # one block; comment lines lead some of the specs, some are followed by a blank line
            out.append("import (")
            for i, f in enumerate(imps):
                if rng.random() < 0.5:
                    out.append("\t// lead %d" % i)
                out.append("\t" + spec(f) + (" // trailing %d" % i if rng.random() < 0.3 else ""))
                if rng.random() < 0.3 and i + 1 < len(imps):
                    out.append("")
            out.append(")")
        else:
            out.append("// imports of the subject")
            out.append("import (")
            for i, f in enumerate(imps):
                out.append("\t// about %s" % f["path"])
                out.append("\t" + spec(f) + " // trailing %d" % i)
            out.append(")")
        out.append("")
    out += ["func f() {", "\t" + stmt]
    if stmt.endswith(".Old()"):
        # the same call through a name that is not the matched import's: never an instance
        out.append("\tdecoyname.Old()")
    out += ["}", ""]
    keep = [n for n in sc["uses"] if usable(n)]
    local = {(f["name"] or BASE[f["path"]]) for f in imps}
    out.append("func keep() {")
    for n in keep:
        # names of packages the file does not import are left out: the statement is about imports
        if n in local:
            out.append("\t_ = %s.Keep" % n if rng.random() < 0.5 else "\t_ = %s.Keep.Deep()" % n)
    out.append("}")
    # decoys: the name as a local variable, and a selector on a local of that name
    for n in sorted(local):
        if usable(n) and n not in keep and rng.random() < 0.5:
            out += ["", "func shadow_%s(%s struct{ Keep int }) int {" % (n, n), "\treturn %s.Keep" % n, "}"]
    return "\n".join(out) + "\n"


# -------------------------------------------------------------------- running --
def run_cases(ctx, scs, name, allow_ref):
    reqs, meta = [], []
    for i, sc in enumerate(scs):
        code = choose_code(sc, ctx.rng, allow_ref)
        shape = ctx.rng.random()
        decl = shape >= 0.8 and code[0] == "foo()"
        patch = render_patch(sc, code, stmts=shape < 0.3, decl=decl, exprmeta=ctx.rng.random() < 0.3)
        src = render_file(sc, code[2], ctx.rng)
        if decl:
            src += "\nfunc oldDecl() {\n\t%s\n}\n" % code[0]
        cid = "%s-%d" % (name, i)
        # the parsed patch has a past: it was applied to other files first (the same file importing the guarded
        # paths under other names / without a name), and the subject is given to it several times
        before, repeat = [], 0
        if "fimps" in sc and ctx.rng.random() < 0.4:
            for flip in ("", "alt"):
                sc2 = dict(sc, fimps=[dict(f, name=("" if flip == "" else "alt" + BASE[f["path"]])) if any(pi["path"] == f["path"] for pi in sc["pimps"]) else f
                                      for f in sc["fimps"]])
                stmt2 = code[2]
                if stmt2.endswith(".Old()"):
                    g0 = [pi for pi in sc["pimps"] if pi["side"] in ("ctx", "minus")][0]
                    f0 = [f for f in sc2["fimps"] if f["path"] == g0["path"]]
                    if g0["form"] == "meta" and f0:
                        stmt2 = "%s.Old()" % (f0[0]["name"] or BASE[f0[0]["path"]])
                before.append(render_file(sc2, stmt2, ctx.rng))
        if ctx.rng.random() < 0.3:
            repeat = 12
        meta.append(dict(id=cid, sc=sc, patch=patch, src=src, code=code, before=before, repeat=repeat))
        reqs.append(dict(id=cid, op="apply", patch=patch, name="subject.go", src=src, before=before, repeat=repeat))
    inp, outp = ctx.path("imp", name + ".in.ndjson"), ctx.path("imp", name + ".out.ndjson")
    write_ndjson(inp, reqs)
    ctx.run_vh(["api", "-in", inp, "-out", outp], timeout=3000)
    res = read_ndjson(outp)
    if len(res) != len(reqs):
        raise Infra("api driver returned %d results for %d requests" % (len(res), len(reqs)))
    obsreq = []
    for m, r in zip(meta, res):
        m["out"], m["err"] = r["out"], r["err"]
        obsreq.append(dict(id=m["id"] + "|in", op="impobs", src=m["src"]))
        obsreq.append(dict(id=m["id"] + "|out", op="impobs", src=r["out"] if not r["err"] else m["src"]))
    inp, outp = ctx.path("imp", name + ".obs.in.ndjson"), ctx.path("imp", name + ".obs.out.ndjson")
    write_ndjson(inp, obsreq)
    ctx.run_vh(["api", "-in", inp, "-out", outp], timeout=3000)
    obs = {r["id"]: r for r in read_ndjson(outp)}
    lines = []
    for m in meta:
        oi, oo = obs[m["id"] + "|in"], obs[m["id"] + "|out"]
        if oi["err"]:
            raise Infra("rendered subject does not parse (%s): %s" % (m["id"], oi["err"]))
        if oo["err"]:
            # the output does not parse: C07's business; recorded as an error here
            m["err"] = m["err"] or ("output does not parse: " + oo["err"])
            oo = oi
        i_, o_ = json.loads(oi["out"]), json.loads(oo["out"] if not oo["err"] else oi["out"])
        new_call = m["code"][1][:-2]
        old_call = m["code"][0][:-2]
        # the metavariable-named call is rendered under the file's own name
        changed = any(c.endswith(new_call.split(".")[-1]) for c in o_["calls"]) and not any(c.endswith(new_call.split(".")[-1]) for c in i_["calls"])
        decoy = "decoyname.Old" not in i_["calls"] or "decoyname.Old" in o_["calls"]
        # the call that the '+' code writes through a package is written under the name that package has in the file
        plusq = not changed or m["code"][3] is None or m["code"][3] in o_["calls"]
        m["obs"] = dict(inImports=i_["imports"], outImports=o_["imports"], uses=o_["uses"], calls=o_["calls"], changed=changed, decoy_kept=decoy,
                        plus_call_expected=m["code"][3])
        lines.append(dict(id=m["id"], pkg=m["sc"]["pkg"], pimps=m["sc"]["pimps"],
                          fimps=[dict(name=x["name"], path=ABS.get(x["path"], x["path"])) for x in i_["imports"]],
                          uses=[u for u in o_["uses"] if u != "decoyname"], changed="1" if changed else "0", decoy="1" if decoy else "0",
                          plusq="1" if plusq else "0", prior=len(m["before"]), repeat=m["repeat"],
                          out=[dict(name=x["name"], path=ABS.get(x["path"], x["path"])) for x in o_["imports"]],
                          err=(m["err"] or "")[:300]))
    return meta, lines


def run_pairs(ctx, scs, name):
    """Two changes in one patch file.  The guard of the second change is judged on the imports of the
    file that the first change alone produces (observed), its effect on the result of the combined run."""
    reqs, meta = [], []
    for i, sc in enumerate(scs):
        code = choose_code(sc, ctx.rng, True)
        p1 = render_patch(sc, code)
        if ctx.rng.random() < 0.3:
            # a first change that cannot apply: it names an import that no file has (and the file lacks its code, too)
            p1 = "@@\n@@\n import \"example.com/absent\"\n\n-nothing()\n+never()\n"
        sc2 = dict(pkg="", pimps=sc["pimps2"])
        p2 = render_patch(sc2, ("baz()", "qux()"))
        src = render_file(sc, code[2], ctx.rng).replace("func keep() {", "func g() {\n\tbaz()\n}\n\nfunc keep() {")
        cid = "%s-%d" % (name, i)
        meta.append(dict(id=cid, sc=dict(pkg="", pimps=sc["pimps2"], first=sc), patch=p1 + "\n" + p2, src=src, code=("baz()", "qux()", "baz()", None), p1=p1))
        reqs.append(dict(id=cid + "|first", op="apply", patch=p1, name="subject.go", src=src))
        reqs.append(dict(id=cid + "|both", op="apply", patch=p1 + "\n" + p2, name="subject.go", src=src))
    inp, outp = ctx.path("imp", name + ".in.ndjson"), ctx.path("imp", name + ".out.ndjson")
    write_ndjson(inp, reqs)
    ctx.run_vh(["api", "-in", inp, "-out", outp], timeout=3000)
    res = {r["id"]: r for r in read_ndjson(outp)}
    obsreq = []
    for m in meta:
        a, b = res[m["id"] + "|first"], res[m["id"] + "|both"]
        m["mid"], m["out"], m["err"] = a["out"], b["out"], a["err"] or b["err"]
        obsreq.append(dict(id=m["id"] + "|mid", op="impobs", src=a["out"] if not a["err"] else m["src"]))
        obsreq.append(dict(id=m["id"] + "|out", op="impobs", src=b["out"] if not b["err"] else m["src"]))
    inp, outp = ctx.path("imp", name + ".obs.in.ndjson"), ctx.path("imp", name + ".obs.out.ndjson")
    write_ndjson(inp, obsreq)
    ctx.run_vh(["api", "-in", inp, "-out", outp], timeout=3000)
    obs = {r["id"]: r for r in read_ndjson(outp)}
    # the same two changes through the command (one patch file, and one -p per change) for a seeded sample:
    # what the command does before and between the changes must not alter the outcome
    import fam_run as fr
    sample = meta if len(meta) <= 160 else [meta[i] for i in sorted(ctx.rng.sample(range(len(meta)), 160))]
    scs_cli = []
    for m in sample:
        files = [dict(path="subject.go", content=m["src"]), dict(path="both.patch", content=m["patch"]), dict(path="p1.patch", content=m["p1"]),
                 dict(path="p2.patch", content=m["patch"][len(m["p1"]) + 1:])]
        for route, args in (("one", ["-p", "both.patch", "subject.go"]), ("each", ["-p", "p1.patch", "-p", "p2.patch", "subject.go"])):
            scs_cli.append(dict(id="%s|%s" % (m["id"], route), files=files, dirs=[], symlinks=[], args=args, stdin="", cwd="", strace=False))
    cli_meta = []
    obsreq = []
    for r in fr.run_cli(ctx, scs_cli, name + "-cli"):
        mid, route = r["id"].rsplit("|", 1)
        m0 = next(x for x in meta if x["id"] == mid)
        err = "" if r["exit"] == 0 and not r["timeout"] else (r["stderr"] or "failed")[:300]
        m2 = dict(m0, id=r["id"], out=r["content"].get("subject.go", ""), err=m0["err"] or err, route=route)
        cli_meta.append(m2)
        obsreq.append(dict(id=r["id"] + "|out", op="impobs", src=m2["out"] if not err else m0["src"]))
    if obsreq:
        inp, outp = ctx.path("imp", name + ".cliobs.in.ndjson"), ctx.path("imp", name + ".cliobs.out.ndjson")
        write_ndjson(inp, obsreq)
        ctx.run_vh(["api", "-in", inp, "-out", outp], timeout=3000)
        for r in read_ndjson(outp):
            obs[r["id"]] = r
        for m2 in cli_meta:
            obs[m2["id"] + "|mid"] = obs[m2["id"].rsplit("|", 1)[0] + "|mid"]
    meta = meta + cli_meta
    lines = []
    for m in meta:
        om, oo = obs[m["id"] + "|mid"], obs[m["id"] + "|out"]
        if om["err"] or oo["err"]:
            m["err"] = m["err"] or ("output does not parse: " + (om["err"] or oo["err"]))
            om = oo = obs[m["id"] + "|mid"] if not om["err"] else dict(out=json.dumps(dict(imports=[], uses=[], calls=[])))
        i_, o_ = json.loads(om["out"]), json.loads(oo["out"])
        changed = "qux" in o_["calls"]
        m["obs"] = dict(midImports=i_["imports"], outImports=o_["imports"], uses=o_["uses"], calls=o_["calls"], changed=changed)
        lines.append(dict(id=m["id"], pkg="", pimps=m["sc"]["pimps"],
                          fimps=[dict(name=x["name"], path=ABS.get(x["path"], x["path"])) for x in i_["imports"]],
                          uses=o_["uses"], changed="1" if changed else "0", decoy="1", plusq="1", prior=0, repeat=0,
                          out=[dict(name=x["name"], path=ABS.get(x["path"], x["path"])) for x in o_["imports"]],
                          err=(m["err"] or "")[:300]))
    return meta, lines


def validate(ctx, name, meta, lines, shards=NCPU):
    shards = max(1, min(shards, len(lines)))
    idx = [list(range(len(lines)))[i::shards] for i in range(shards)]

    def one(ix):
        tf = ctx.path("trace", "%s-%d.ndjson" % (name, ix))
        of = ctx.path("trace", "%s-%d.verdicts.ndjson" % (name, ix))
        write_ndjson(tf, [lines[i] for i in idx[ix]])
        ctx.tlc("TraceImports", CFG_TRACE % dict(trace=tf, out=of), "trace-%s-%d" % (name, ix), workers=1, timeout=3000)
        vs = read_ndjson(of)
        if len(vs) != len(idx[ix]):
            raise Infra("TraceImports %s-%d: %d records, %d verdicts" % (name, ix, len(idx[ix]), len(vs)))
        return [(i, v) for i, v in zip(idx[ix], vs)]

    out = [None] * len(lines)
    for res in pmap(one, range(shards), workers=min(shards, NCPU)):
        for i, v in res:
            out[i] = v
    return out


def judge(ctx, meta, lines, verdicts, owned, known, kf_key="plus-equals-matched-import"):
    st = dict(cases=len(lines), judged=0, holds=0, fails=0, changed=0, drift=0, kf=0, by_clause={})
    for m, ln, v in zip(meta, lines, verdicts):
        if v["judged"] != "1":
            continue
        st["judged"] += 1
        st["holds" if v["holds"] == "1" else "fails"] += 1
        if ln["changed"] == "1":
            st["changed"] += 1
        if v["ieq"] != "1":
            st["drift"] += 1
        bad = [x for x in v["viol"] if x in owned]
        if not bad:
            continue
        for x in bad:
            st["by_clause"][x] = st["by_clause"].get(x, 0) + 1
        if v["kf"] == "1" and kf_key in known and set(bad) <= {"PlusPresent", "MatchedKeptWhenUsed", "MinusGoneWhenUnused"}:
            st["kf"] += 1
            ctx.known(kf_key, known[kf_key], m["id"])
            continue
        ctx.violation("%s: %s" % (m["id"], ",".join(bad)),
                      dict(kind="imports", id=m["id"], violated=bad, scenario=m["sc"], patch=m["patch"], src=m["src"],
                           out=m["out"], err=m["err"], observed=m["obs"], first_patch=m.get("p1"), before=m.get("before", []), repeat=m.get("repeat", 0)))
    return st


def replay(ctx, path, owned, prop):
    from vlib import load_known
    r = json.load(open(path))
    sc = r["scenario"]
    reqs = [dict(id="replay", op="apply", patch=r["patch"], name="subject.go", src=r["src"], before=r.get("before", []), repeat=r.get("repeat", 0))]
    inp, outp = ctx.path("imp", "replay.in.ndjson"), ctx.path("imp", "replay.out.ndjson")
    write_ndjson(inp, reqs)
    ctx.run_vh(["api", "-in", inp, "-out", outp])
    res = read_ndjson(outp)[0]
    for b in r.get("before", []):
        print("applied before (same parsed patch):\n" + b)
    print("patch:\n" + r["patch"] + "\nsource:\n" + r["src"] + "\nresult (err=%r):\n%s" % (res["err"], res["out"]))
    mid = r["src"]
    if r.get("first_patch"):
        # two-change history: the guards of the second change are judged on the result of the first alone
        write_ndjson(inp, [dict(id="first", op="apply", patch=r["first_patch"], name="subject.go", src=r["src"])])
        ctx.run_vh(["api", "-in", inp, "-out", outp])
        fr_ = read_ndjson(outp)[0]
        mid = fr_["out"] if not fr_["err"] else r["src"]
        print("result of the first change alone:\n" + mid)
    obsreq = [dict(id="i", op="impobs", src=mid), dict(id="o", op="impobs", src=res["out"] if not res["err"] else r["src"])]
    write_ndjson(inp, obsreq)
    ctx.run_vh(["api", "-in", inp, "-out", outp])
    oi, oo = [json.loads(x["out"]) for x in read_ndjson(outp)]
    new_call = r["patch"].strip().split("\n")[-1][1:-2].split(".")[-1]
    changed = any(c.endswith(new_call) for c in oo["calls"]) and not any(c.endswith(new_call) for c in oi["calls"])
    if r.get("first_patch"):
        changed = "qux" in oo["calls"]
    line = dict(id="replay", pkg=sc["pkg"], pimps=sc["pimps"], fimps=[dict(name=x["name"], path=ABS.get(x["path"], x["path"])) for x in oi["imports"]],
                uses=[u for u in oo["uses"] if u != "decoyname"], changed="1" if changed else "0",
                decoy="1" if ("decoyname.Old" not in oi["calls"] or "decoyname.Old" in oo["calls"]) else "0",
                plusq="1" if (not changed or not (r.get("observed") or {}).get("plus_call_expected") or r["observed"]["plus_call_expected"] in oo["calls"]) else "0",
                prior=len(r.get("before", [])), repeat=r.get("repeat", 0),
                out=[dict(name=x["name"], path=ABS.get(x["path"], x["path"])) for x in oo["imports"]], err=(res["err"] or "")[:300])
    meta = [dict(id="replay", sc=sc, patch=r["patch"], src=r["src"], out=res["out"], err=res["err"], obs=dict(uses=oo["uses"], changed=changed))]
    v = validate(ctx, "replay", meta, [line], shards=1)
    judge(ctx, meta, [line], v, owned, load_known(prop))
    return ctx.finish("model_checking", dict(states=0, transitions=0, traces_validated_against_impl=1, samples=[line], rule="replay of one recorded case"), ["replay"])
