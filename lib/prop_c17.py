"""C17 - comments in untouched declarations survive; none are invented or duplicated.

  1. TLC design check of the region arithmetic of astdiff.walkSlice (spec/Comments.tla,
     spec/MCComments.tla): replacing one item of a list never deletes a comment that the
     comment map associates with another item, for every layout in the bounds
  2. TLC draws files from the slot universe of Comments.tla (spec/EmitComments.tla); each is
     rendered (unique comment texts), patched by the real patch.Parse / File.Apply and by the
     command, and an independent observer (harness/cmtobs.go) lists the comments of every
     top-level declaration of gofmt(input) and of the output
  3. TLC (spec/TraceComments.tla) judges every record with the P-layer predicates
"""
import difflib, json, os, glob
import fam_run as fr
from vlib import Infra, load_known, read_ndjson, write_ndjson, pmap, NCPU, VERIF

ASSUME = [
    "harness/cmtobs.go (go/parser, go/format) decides which comments belong to a declaration: its doc comment, every comment inside its extent, and a comment starting on the line where it ends; inputs are passed through go/format first so that gofmt's own normalisation is not attributed to gopatch",
    "a declaration is 'untouched' when its syntax (harness abstraction alpha: no comments, positions, layout) occurs unchanged in the output; input and output declarations are paired by a longest-common-subsequence over these syntax hashes (lib/prop_c17.py)",
    "every generated comment has a unique text, so duplication and re-attachment are visible",
    "the effect of line merging in cleanupFilePos on go/printer's layout is not modelled; it is judged black-box by the predicates above",
]

CFG_MC = """SPECIFICATION Spec
CONSTANTS
  MaxDecls = 1
  MaxItems = %d
INVARIANT DesignOK
INVARIANT CoversItem
CHECK_DEADLOCK FALSE
"""
CFG_EMIT = """SPECIFICATION EmitSpec
CONSTANTS
  MaxDecls = %d
  OutFile = "%s"
  PerPos = %d
  NHeaders = %d
  PerClass = %d
CHECK_DEADLOCK FALSE
"""
CFG_TRACE = """SPECIFICATION TraceSpec
CONSTANTS
  MaxDecls = 1
  TraceFile = "%s"
  OutFile = "%s"
INVARIANT Flush
POSTCONDITION Accepted
CHECK_DEADLOCK FALSE
"""

C_EXPR = "@@\nvar x expression\n@@\n-old(x)\n+new(x)\n"
C_SPREAD = "@@\nvar xs expression\n@@\n-spread(..., xs)\n+spread(..., xs...)\n"      # a token that was absent appears
C_EXPR_IMP = "@@\nvar x expression\n@@\n+import \"context\"\n\n-old(x)\n+new(context.TODO(), x)\n"      # ... and adds the file's first import
C_STMT = "@@\n@@\n anchor()\n-drop()\n"
C_SIG = "@@\nvar f identifier\n@@\n-func f(marker int) {\n+func f(marker int, extra string) {\n   ...\n }\n"
C_KIND = "@@\nvar f identifier\n@@\n-func f(marker int) {\n+var f = func(marker int) {\n   ...\n }\n"
C_VAR = "@@\nvar v identifier\nvar x expression\n@@\n-var v marker = x\n+const v marker = x\n"
C_TYPE = "@@\nvar t identifier\n@@\n-type t marker\n+type t = marker\n"


def doc_lines(style, n):
    return {"none": [], "line": ["// d%d does things." % n], "block": ["/* d%d block doc */" % n],
            "multi": ["// d%d first doc line." % n, "// d%d second doc line." % n],
            "directive": ["// d%d has a directive." % n, "//go:generate echo d%d" % n]}[style]


def render_decl(s, n, spread=False):
    out = []
    if s["gap"] == "free":
        out += ["// free-standing %d" % n, ""]
    out += doc_lines(s["doc"], n)
    tr = " // trail %d" % n if s["trail"] == "eol" else ""
    k = s["kind"]
    if k == "func":
        out.append("func d%d(%s) {" % (n, "marker int" if s["touch"] == "decl" else ""))
        out.append("\tkeep(%d)%s" % (n, " // eol %d" % n if s["inner"] == "eol" else ""))
        if s["inner"] == "own":
            out.append("\t// own %d" % n)
        if s["inner"] == "expr":
            out.append("\tuse(1, /* expr %d */ 2)" % n)
        if s["touch"] == "expr":
            out.append("\tspread(%d, rest)" % n if spread else "\told(%d)" % n)
        if s["touch"] == "stmt":
            out += ["\tanchor()", "\tdrop()"]
        out.append("\tlast(%d)" % n)
        out.append("}" + tr)
    elif k == "var":
        val = "old(%d)" % n if s["touch"] == "expr" else ("use(1, /* expr %d */ 2)" % n if s["inner"] == "expr" else "value(%d)" % n)
        eol = " // eol %d" % n if s["inner"] == "eol" and not tr else ""
        out.append("var d%d %s= %s%s%s" % (n, "marker " if s["touch"] == "decl" else "", val, tr, eol))
    elif s["touch"] == "decl":
        out.append("type d%d marker%s" % (n, tr))
    else:
        out.append("type d%d struct {" % n)
        out.append("\tA int%s" % (" // eol %d" % n if s["inner"] == "eol" else ""))
        if s["inner"] == "own":
            out.append("\t// own %d" % n)
        out.append("\tB []string%s" % (" /* expr %d */" % n if s["inner"] == "expr" else ""))
        out.append("}" + tr)
    out.append("")
    return out


def render(f, rng, spread=False, addimp=False):
    h = f["hdr"]
    out = []
    if h["build"] == "tag":
        out += ["//go:build linux", ""]
    if h["lic"] == "detached":
        out += ["// Copyright 2024 The Authors.", ""]
    if h["pkgdoc"] == "line":
        out.append("// Package a is documented.")
    out.append("package a" + (" // pkg trail" if h["pkgtrail"] == "eol" else ""))
    out.append("")
    for i, s in enumerate(f["decls"], 1):
        out += render_decl(s, i, spread)
    touches = {(s["kind"], s["touch"]) for s in f["decls"]}
    changes = []
    if any(t == "expr" for _, t in touches):
        changes.append(C_EXPR_IMP if addimp else C_EXPR)
    if spread and ("func", "expr") in touches:
        changes.append(C_SPREAD)
    if any(t == "stmt" for _, t in touches):
        changes.append(C_STMT)
    if ("func", "decl") in touches:
        changes.append(rng.choice([C_SIG, C_KIND]))
    if ("var", "decl") in touches:
        changes.append(C_VAR)
    if ("type", "decl") in touches:
        changes.append(C_TYPE)
    rng.shuffle(changes)
    return "\n".join(out), "\n".join(changes)


def pair(din, dout):
    """ids for declarations with equal syntax (LCS over syntax hashes)."""
    a, b = [d["key"] for d in din], [d["key"] for d in dout]
    sm = difflib.SequenceMatcher(None, a, b, autojunk=False)
    ia, ib = [0] * len(a), [0] * len(b)
    nid = 0
    for blk in sm.get_matching_blocks():
        for k in range(blk.size):
            nid += 1
            ia[blk.a + k] = nid
            ib[blk.b + k] = nid
    return ia, ib


def corpus_cases(ctx):
    """hand-written comment-heavy files x patches (corpus/comments)."""
    out = []
    d = os.path.join(VERIF, "corpus", "comments")
    patches = sorted(glob.glob(os.path.join(d, "*.patch")))
    for g in sorted(glob.glob(os.path.join(d, "*.go"))):
        for p in patches:
            out.append(dict(id="corpus:%s:%s" % (os.path.basename(g), os.path.basename(p)), src=open(g).read(), patch=open(p).read(), file=None))
    return out


def run(ctx):
    quick = ctx.tier == "quick"
    known = load_known("C17")
    mc = ctx.tlc("MCComments", CFG_MC % (2 if quick else 3), "mc-comments", workers=NCPU, timeout=3000)
    out = ctx.path("vec", "files.ndjson")
    ctx.tlc("EmitComments", CFG_EMIT % (3, out, 5 if quick else 12, 3 if quick else 6, 500 if quick else 0), "emit-comments", workers=1, timeout=3000,
            extra=["-seed", str(ctx.seed)])
    files = read_ndjson(out)
    cases = []
    for i, f in enumerate(files):
        src, patch = render(f, ctx.rng)
        cases.append(dict(id="gen-%d" % i, src=src, patch=patch, file=f))
        if any(d["touch"] == "expr" for d in f["decls"]):
            # the same file with a change that also adds the first import of the file
            src, patch = render(f, ctx.rng, addimp=True)
            cases.append(dict(id="gen-%d-addimp" % i, src=src, patch=patch, file=f))
        if any(d["kind"] == "func" and d["touch"] == "expr" for d in f["decls"]):
            # the same file with expression sites that gain a token which was absent ('rest' -> 'rest...')
            src, patch = render(f, ctx.rng, spread=True)
            cases.append(dict(id="gen-%d-spread" % i, src=src, patch=patch, file=f))
    cases += corpus_cases(ctx)
    results = execute(ctx, cases)
    n_changed = n_untouched = 0
    for c, rec, v in results:
        if c["changed"]:
            n_changed += 1
        n_untouched += sum(1 for d in rec["din"] if d["id"] != 0)
        bad = list(v["viol"])
        if not bad:
            continue
        kf = next((k for k, fn in KF.items() if k in known and fn(c, rec, bad)), None)
        if kf:
            ctx.known(kf, known[kf], c["id"])
            continue
        ctx.violation("%s (%s): %s" % (c["id"], c["route"], ",".join(bad)),
                      dict(kind="comments", id=c["id"], route=c["route"], violated=bad, src=c["src"], patch=c["patch"], out=c["out"], err=c["err"],
                           record=rec, file=c["file"]))
    if n_changed == 0:
        raise Infra("vacuous run: no case was rewritten")
    r0 = results[0]
    cov = dict(states=mc["distinct"], transitions=mc["states"], traces_validated_against_impl=len(results), evaluations=len(results),
               distinct_nontrivial=len({(c["src"], c["patch"]) for c, _, _ in results if c["changed"]}), cases_rewritten=n_changed,
               untouched_declarations_judged=n_untouched, files_from_universe=len(files), exhaustive=False,
               samples=[dict(src=r0[0]["src"], patch=r0[0]["patch"], out=r0[0]["out"], record=r0[1], verdict=r0[2])],
               rule="design: region arithmetic of astdiff.walkSlice for every layout of <=%d items with optional leading / trailing comments and gaps (TLC); replay: TLC-drawn files of 1..3 declaration slots (kind x doc style x inner comment x trailing comment x free-standing comment x touch kind) x 16 headers, rendered and patched through the library API and the command, plus hand-written comment-heavy files x patches; distinct = distinct rewritten (source, patch)" % (2 if quick else 3))
    return ctx.finish("model_checking", cov, ASSUME)


def kf_pkgtrail(c, rec, bad):
    # the comment trailing the package clause is dropped when the first declaration is replaced as a whole
    return set(bad) == {"PackageTrailKept"} and rec["ptOut"] == [] and rec["din"] and rec["din"][0]["id"] == 0


def kf_misaligned(c, rec, bad):
    # the recorded input (known_findings.jsonl): nine similar declarations, the first import of the file is added
    return c["id"] == "corpus:c5.go:p_imp_first.patch" and set(bad) <= {"UntouchedKeepsComments"}


def kf_first_import(c, rec, bad):
    # the first import of the file is added below a package clause that carries a trailing comment: the doc comment
    # of the untouched first declaration ends up on the import line
    f = c.get("file")
    return bool(f) and c["id"].endswith("-addimp") and set(bad) <= {"UntouchedKeepsComments"} and f["hdr"]["pkgtrail"] == "eol" and \
        f["decls"][0]["touch"] == "none" and f["decls"][0]["doc"] != "none"


KF = {"package-trailing-comment-dropped": kf_pkgtrail, "first-import-takes-doc-comment-of-first-declaration": kf_first_import, "untouched-declaration-misaligned-after-first-import": kf_misaligned}


def execute(ctx, cases):
    # library API and command (print-only) for every case
    reqs = [dict(id=c["id"], op="apply", patch=c["patch"], name="subject.go", src=c["src"]) for c in cases]
    inp, outp = ctx.path("c17", "api.in.ndjson"), ctx.path("c17", "api.out.ndjson")
    write_ndjson(inp, reqs)
    ctx.run_vh(["api", "-in", inp, "-out", outp], timeout=3000)
    api = {r["id"]: r for r in read_ndjson(outp)}
    scs = [dict(id=c["id"], files=[dict(path="subject.go", content=c["src"]), dict(path="p.patch", content=c["patch"])], dirs=[], symlinks=[],
                args=["--print-only", "-p", "p.patch", "subject.go"], stdin="", cwd="", strace=False, timeout_ms=20000) for c in cases]
    cli = {r["id"]: r for r in fr.run_cli(ctx, scs, "c17")}
    runs = []
    for c in cases:
        a = api[c["id"]]
        runs.append(dict(c, route="api", out=a["out"] if not a["err"] else c["src"], err=a["err"]))
        r = cli[c["id"]]
        runs.append(dict(c, route="cli", out=r["stdout"] if r["exit"] == 0 else c["src"], err=r["stderr"] if r["exit"] != 0 else ""))
    obsreq = []
    for i, c in enumerate(runs):
        obsreq.append(dict(id="%d|in" % i, op="cmtobs", src=c["src"]))
        obsreq.append(dict(id="%d|out" % i, op="cmtobs", src=c["out"]))
    inp, outp = ctx.path("c17", "obs.in.ndjson"), ctx.path("c17", "obs.out.ndjson")
    write_ndjson(inp, obsreq)
    ctx.run_vh(["api", "-in", inp, "-out", outp], timeout=3000)
    obs = {r["id"]: r for r in read_ndjson(outp)}
    lines = []
    for i, c in enumerate(runs):
        oi, oo = obs["%d|in" % i], obs["%d|out" % i]
        if oi["err"]:
            raise Infra("input of %s does not parse: %s" % (c["id"], oi["err"]))
        if oo["err"]:
            # unparseable output is C07's business; nothing to judge here
            oo = oi
            c["err"] = c["err"] or "output does not parse"
        i_, o_ = json.loads(oi["out"]), json.loads(oo["out"])
        ia, ib = pair(i_["decls"], o_["decls"])
        c["changed"] = [d["key"] for d in i_["decls"]] != [d["key"] for d in o_["decls"]]
        lines.append(dict(id="%s|%s" % (c["id"], c["route"]),
                          din=[dict(id=k, comments=d["comments"]) for k, d in zip(ia, i_["decls"])],
                          dout=[dict(id=k, comments=d["comments"]) for k, d in zip(ib, o_["decls"])],
                          hdrIn=i_["header"], hdrOut=o_["header"], ptIn=i_["pkgtrail"], ptOut=o_["pkgtrail"], allIn=i_["all"], allOut=o_["all"]))
    shards = max(1, min(NCPU, len(lines)))
    idx = [list(range(len(lines)))[i::shards] for i in range(shards)]

    def one(ix):
        tf, of = ctx.path("trace", "c17-%d.ndjson" % ix), ctx.path("trace", "c17-%d.verdicts.ndjson" % ix)
        write_ndjson(tf, [lines[i] for i in idx[ix]])
        ctx.tlc("TraceComments", CFG_TRACE % (tf, of), "trace-c17-%d" % ix, workers=1, timeout=3000)
        vs = read_ndjson(of)
        if len(vs) != len(idx[ix]):
            raise Infra("TraceComments: %d records, %d verdicts" % (len(idx[ix]), len(vs)))
        return list(zip(idx[ix], vs))

    verd = [None] * len(lines)
    for res in pmap(one, range(shards)):
        for i, v in res:
            verd[i] = v
    return list(zip(runs, lines, verd))


def replay(ctx, path):
    r = json.load(open(path))
    res = execute(ctx, [dict(id="replay", src=r["src"], patch=r["patch"], file=r.get("file"))])
    for c, rec, v in res:
        print("route %s: violated %s\n--- output\n%s" % (c["route"], v["viol"], c["out"]))
        if v["viol"]:
            ctx.violation("replay (%s): %s" % (c["route"], ",".join(v["viol"])), r)
    return ctx.finish("model_checking", dict(states=0, transitions=0, traces_validated_against_impl=len(res), samples=[], rule="replay of one case"), ["replay"])
