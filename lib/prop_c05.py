"""C05 - everything outside the rewritten fragments is preserved."""
import fam_rewrite as fr
from vlib import load_known

ASSUME = [
    "go/parser and go/printer (observers) are correct",
    "harness abstraction alpha and its inverse (self-checked by round trip on every generated vector)",
    "TLC evaluates Pattern.tla faithfully; verdicts are P-layer predicates evaluated on recorded real executions",
    "for statement patterns the site is the whole statement list of the container, so a wrong result there (prefix / suffix / other fields of the container damaged) is attributed to this property too",
    "comparison is modulo ParenExpr (the printer inserts the parentheses an instantiated tree needs)",
]

RICH = ["corpus/rich/r1.go", "corpus/rich/r2.go", "corpus/nearmiss/nm_expr.go", "corpus/nearmiss/nm_stmt.go", "corpus/nearmiss/nm_decl.go"]


def run(ctx):
    quick = ctx.tier == "quick"
    bounds = dict(maxargs=2 if quick else 3, maxlist=3)
    known = load_known("C05")
    results = []
    tot = 0
    for u, n in (("expr", 40), ("meta", 10), ("stmts", 12)):
        vecs, subj, nsub = fr.universe_vectors(ctx, u, bounds, "C05")
        tot += len(vecs)
        sel = fr.sample(ctx, vecs, n if quick else 4 * n)
        results += fr.replay_and_judge(ctx, u, fr.on_files(sel, RICH[:3] if u != "stmts" else [RICH[1], RICH[3]], "rich corpus"), None, shards=16)
    nm = fr.on_files(fr.text_vectors(ctx, "corpus/nearmiss/vectors.json", "C05"), RICH, "near-miss patterns on all rich files")
    if quick:
        nm = fr.sample(ctx, nm, 120)
    results += fr.replay_and_judge(ctx, "nm", nm, None, shards=16)
    results += fr.replay_and_judge(ctx, "inter", fr.text_vectors(ctx, "corpus/inter/vectors.json", "C05"), None, shards=8)
    st = fr.classify(ctx, results, known, accept_classes=("collateral",), stmt_wrongrepl=True)
    states, trans = fr.mc_counts(ctx)
    cov = dict(states=states, transitions=trans, traces_validated_against_impl=st["cases"],
               samples=[fr.short_sample(results[0]), fr.short_sample(results[-1])],
               evaluations=st["cases"], distinct_nontrivial=st["nontrivial"], sites_judged=st["sites"],
               universe_pairs=tot, model_drift_cases=st["drift"], files=RICH,
               rule="sampled universe pairs and all near-miss corpus patterns applied to whole files with rich surrounding syntax (generics, labels, struct tags, raw strings, build constraints, closures, select/type switch); the judge requires identical kind, attributes and child structure on every path outside an instance; non-trivial = at least one instance in the input",
               cases_failing=st["failing"], sites_failed=st["sites_failed"])
    return ctx.finish("model_checking", cov, ASSUME)
