"""C19 - header and metavariable diagnostics point at the offending token."""
import json, re
from vlib import load_known, read_ndjson, write_ndjson, pmap, Infra, NCPU

ASSUME = [
    "patch texts are rendered from the token-level universe of Section.tla by lib/prop_c19.py (token text preceded by its number of blanks)",
    "diagnostic positions are extracted from the error text with the pattern <file>:<line>:<col>",
    "the offending token of a missing type is the end of the line (the implicit ';')",
]
FAULTS = ["badname", "badname8", "nothdr", "unktype", "dupname", "notype", "twodecl", "novar", "noname", "trailcomma"]
CFG = """SPECIFICATION Spec
CONSTANTS
  MaxChanges = %d
  Faults = {%s}
INVARIANT DesignOK
CHECK_DEADLOCK FALSE
"""
CFG_EMIT = """SPECIFICATION EmitSpec
CONSTANTS
  MaxChanges = %d
  Faults = {%s}
  OutFile = "%s"
  FaultFile = "%s"
CHECK_DEADLOCK FALSE
"""
CFG_TRACE = """SPECIFICATION TraceSpec
CONSTANTS
  MaxChanges = 3
  Faults = {%s}
  TraceFile = "%s"
  OutFile = "%s"
INVARIANT Flush
POSTCONDITION Accepted
CHECK_DEADLOCK FALSE
"""


def q(l):
    return ", ".join('"%s"' % x for x in l)


RNG = [None]


def line_text(toks):
    """token text preceded by its blanks; a blank is a space or (seeded) a tab - one byte, one column either way"""
    rng = RNG[0]
    return "".join("".join(("\t" if (rng is not None and rng.random() < 0.25) else " ") for _ in range(t["g"])) + t["t"].replace("AE", "\u00e4") for t in toks)


def trail():
    """invisible blanks at the end of a line (seeded): they move no token"""
    rng = RNG[0]
    return rng.choice(["", "", "", " ", "\t", "  \t "]) if rng is not None else ""


def render(rec):
    out = []
    f = rec["fault"]
    for ci, c in enumerate(rec["changes"], 1):
        for p in c["pre"]:
            out.append("# a comment" if p == "#" else "")
        faulty = ci == f["c"]
        # (a header line with blanks after it is no header: trailing blanks go on metavariable lines only)
        out.append(line_text(rec["faultline"]) if faulty and f["m"] == 0 else line_text(c["hdr"]))
        meta = [line_text(m) + (trail() if m else "") for m in c["meta"]]      # (an empty line stays empty)
        if faulty and f["m"] > 0:
            # (for "notype" the offending token is the end of the line itself: blanks in front of it would move it)
            meta.insert(f["m"] - 1, line_text(rec["faultline"]) + ("" if f["k"] in ("notype", "noname", "trailcomma") else trail()))
        out += meta
        out.append("@@")
        out += ["-foo(1)", "+bar(1)"]
        if c["body"] == 3:
            out.append("")
    return "\n".join(out) + "\n"


def run(ctx):
    quick = ctx.tier == "quick"
    known = load_known("C19")
    RNG[0] = ctx.rng
    maxch = 2
    mc = ctx.tlc("Section", CFG % (maxch, q(FAULTS)), "mc-section", workers=NCPU, timeout=3000)
    out, ff = ctx.path("vec", "section.ndjson"), ctx.path("vec", "faults.ndjson")
    ctx.tlc("EmitSection", CFG_EMIT % (maxch, q(FAULTS), out, ff), "emit-section", workers=1, timeout=1800)
    patches = read_ndjson(out)
    flines = {r["k"]: r for r in read_ndjson(ff)}
    # fault placements as in Section!FaultsOf
    def faults_of(p):
        fs = []
        for c in range(1, len(p) + 1):
            for k, r in flines.items():
                if r["hdr"] == "1":
                    if k != "nothdr" or c == 1:
                        fs.append(dict(c=c, k=k, m=0))
                else:
                    for m in range(1, len(p[c - 1]["meta"]) + 2):
                        fs.append(dict(c=c, k=k, m=m))
        return fs
    total = sum(len(faults_of(p["changes"])) for p in patches)
    n = 3000 if quick else 60000
    vecs = []
    while len(vecs) < n:
        p = ctx.rng.choice(patches)["changes"]
        f = ctx.rng.choice(faults_of(p))
        vecs.append(dict(changes=p, fault=f, faultline=flines[f["k"]]["line"]))
    # three-change patches with the fault in the last change (positions shifted by two earlier changes)
    extra = []
    for v in ctx.rng.sample(vecs, min(len(vecs), 600 if quick else 6000)):
        if len(v["changes"]) == 2:
            w = json.loads(json.dumps(v))
            w["changes"] = [w["changes"][0]] + w["changes"]
            w["fault"]["c"] += 1
            if w["fault"]["k"] == "nothdr":
                continue
            extra.append(w)
    vecs += extra
    names = ["v.patch", "dir/my patch.txt", "/abs/p.gopatch"]
    reqs = []
    for i, v in enumerate(vecs):
        v["id"] = "c19-%d" % i
        v["file"] = names[i % len(names)]
        v["text"] = render(v)
        reqs.append(dict(id=v["id"], op="parsepatch", name=v["file"], patch=v["text"]))
    shards = NCPU
    parts = [list(range(i, len(vecs), shards)) for i in range(shards)]

    def one(ix):
        inp, outp = ctx.path("c19", "req-%d.ndjson" % ix), ctx.path("c19", "res-%d.ndjson" % ix)
        write_ndjson(inp, [reqs[k] for k in parts[ix]])
        ctx.run_vh(["api", "-in", inp, "-out", outp])
        res = read_ndjson(outp)
        lines = []
        for k, r in zip(parts[ix], res):
            v = vecs[k]
            diags = []
            for m in re.finditer(r"(?:^|[\s;:])((?:/|\w)[^:;\n]*?):(\d+):(\d+)", r["err"]):
                diags.append(dict(file=m.group(1).strip(), line=int(m.group(2)), col=int(m.group(3))))
            # file names with spaces: also try the exact name
            for m in re.finditer(re.escape(v["file"]) + r":(\d+):(\d+)", r["err"]):
                diags.append(dict(file=v["file"], line=int(m.group(1)), col=int(m.group(2))))
            lines.append(dict(id=v["id"], changes=v["changes"], fault=v["fault"], file=v["file"],
                              rejected="1" if r["err"] not in ("",) and not r["err"].startswith(("panic", "timeout")) else "0",
                              diags=diags, err=r["err"][:300]))
        tf, of = ctx.path("c19", "trace-%d.ndjson" % ix), ctx.path("c19", "verdicts-%d.ndjson" % ix)
        write_ndjson(tf, [{k: v for k, v in l.items() if k != "err"} for l in lines])
        ctx.tlc("TraceSection", CFG_TRACE % (q(FAULTS), tf, of), "trace-c19-%d" % ix, workers=1, timeout=3000)
        vs = read_ndjson(of)
        if len(vs) != len(lines):
            raise Infra("TraceSection: %d records, %d verdicts" % (len(lines), len(vs)))
        return [(vecs[k], l, vv) for k, l, vv in zip(parts[ix], lines, vs)]

    ctx.build_harness()
    results = []
    for r in pmap(one, range(shards)):
        results += r
    # the same patches through the command (its patch loader is a different entry point than patch.Parse)
    import fam_run as frn
    sample = ctx.rng.sample(vecs, min(len(vecs), 400 if quick else 4000))
    scs = [dict(id=v["id"] + "|cli", files=[dict(path="x.go", content="package a\n\nfunc f() { foo(1) }\n"), dict(path="my.patch", content=v["text"])],
                dirs=[], symlinks=[], args=["-p", "my.patch", "x.go"], stdin="", cwd="", strace=False, timeout_ms=20000) for v in sample]
    clines = []
    for v, r in zip(sample, frn.run_cli(ctx, scs, "c19")):
        diags = [dict(file="my.patch", line=int(m.group(1)), col=int(m.group(2))) for m in re.finditer(r"my\.patch:(\d+):(\d+)", r["stderr"])]
        untouched = r["content"].get("x.go") == "package a\n\nfunc f() { foo(1) }\n"
        clines.append(dict(id=v["id"] + "|cli", changes=v["changes"], fault=v["fault"], file="my.patch",
                           rejected="1" if (r["exit"] != 0 and not r["timeout"] and untouched) else "0", diags=diags, err=r["stderr"][:300]))
    tf, of = ctx.path("c19", "trace-cli.ndjson"), ctx.path("c19", "verdicts-cli.ndjson")
    write_ndjson(tf, [{k: v for k, v in l.items() if k != "err"} for l in clines])
    ctx.tlc("TraceSection", CFG_TRACE % (q(FAULTS), tf, of), "trace-c19-cli", workers=1, timeout=3000)
    cvs = read_ndjson(of)
    if len(cvs) != len(clines):
        raise Infra("TraceSection (cli): %d records, %d verdicts" % (len(clines), len(cvs)))
    results += [(dict(v, id=v["id"] + "|cli", file="my.patch"), l, vv) for v, l, vv in zip(sample, clines, cvs)]
    kinds = {}
    for v, l, vv in results:
        kinds[v["fault"]["k"]] = kinds.get(v["fault"]["k"], 0) + 1
        if vv["viol"]:
            ctx.violation("%s: %s fault=%s want=%s got=%s" % (v["id"], ",".join(vv["viol"]), v["fault"], vv["want"], l["diags"][:3]),
                          dict(kind="section", id=v["id"], violated=vv["viol"], fault=v["fault"], expected=vv["want"], file=v["file"],
                               patch=v["text"], error=l["err"]))
    r0 = results[0]
    cov = dict(states=mc["distinct"], transitions=mc["states"], traces_validated_against_impl=len(results),
               samples=[dict(patch=r0[0]["text"], fault=r0[0]["fault"], expected=r0[2]["want"], error=r0[1]["err"])],
               evaluations=len(results), distinct_nontrivial=len({v["text"] for v, _, _ in results}), by_fault_kind=kinds,
               universe=total, exhaustive=False,
               rule="Section.tla: patches of <=2 changes x 5 prefixes (comment/blank lines) x 3 header forms x 4 meta sections x 7 fault kinds at every change and meta line (TLC exhaustive: the sectioner's offset arithmetic = the offending token's position); replay: seeded sample (plus 3-change variants) parsed by the real patch.Parse under three patch file names (blanks rendered as spaces or tabs), a sample also through the command's patch loader (-p); distinct = distinct patch texts")
    return ctx.finish("model_checking", cov, ASSUME)
