"""C14 - each file's result depends only on the patches and that file.

Library half (spec/Concurrent.tla): TLC enumerates every interleaving of the gate
points of concurrent File.Apply calls on one parsed patch; each interleaving is
replayed on real goroutines through the gates of the verif build; the recorded
passages are validated step by step against the model (spec/TraceConcurrent.tla),
every call's result is compared with the result of the same source alone, and a deep
hash of the compiled program is taken before and after every step.  Sequential
histories and free-running goroutines under the race detector are judged by the same
trace spec.

Command half (spec/Indep.tla): TLC enumerates sequences of file kinds x argument
orders x modes; every run is executed twice and compared, file by file, with the
solo run of that file (spec/TraceIndep.tla).
"""
import json, os, re, subprocess
import fam_run as fr
from vlib import Infra, load_known, read_ndjson, write_ndjson, pmap, NCPU, GOENV, HARNESS, REPO

ASSUME = [
    "the gates of the verif build (patch/gopatch.go: parse, match, replace, diff, format, imports) are the scheduling points; between two gates a call runs without interruption, so an interleaving below gate granularity is only exercised by the free-running race-detector runs",
    "results are compared byte for byte with the result of the same source applied alone through a separately parsed patch",
    "the deep program hash (patch.VerifProgramHash, reflection over unexported fields, maps in key order) sees every value reachable from the compiled program within slice lengths; the token.FileSet is excluded (it legitimately grows)",
    "command half: a file's outcome = class of its bytes afterwards (original / fully patched per the solo --print-only reference / other), its parts of stdout and its stderr lines, as abstracted by lib/fam_run.py",
]

PATCH = """@ c1 @
var x expression
@@
-foo(x)
+obj.x

@ c2 @
@@
-baz()
+qux()
"""
SRC = {
    "both": ["package a\n\nfunc f() {\n\tfoo(name)\n\tbaz()\n}\n",
             "package a\n\nimport \"fmt\"\n\n// doc\nfunc f() {\n\tfmt.Println(foo(first), foo(second)) // c\n\tif baz() {\n\t\tbaz()\n\t}\n}\n"],
    "first": ["package a\n\nfunc f() {\n\tfoo(name)\n}\n", "package b\n\nvar v = foo(w)\n\nfunc g() { other() }\n"],
    "second": ["package a\n\nfunc f() {\n\tbaz()\n}\n", "package c\n\nfunc g() {\n\tgo baz()\n\tdefer baz()\n}\n"],
    "none": ["package a\n\nfunc f() {\n\tother()\n}\n", "package a\n\nfunc   f( ) { bazz( ) }\n"],
    "bad": ["package a\n\nfunc f( {\n", "not go\n"],
    "rerr": ["package a\n\nfunc f() {\n\tfoo(a + b)\n}\n", "package a\n\nfunc f() {\n\tfoo(1)\n\tother()\n}\n"],
}
# Patches whose changes edit the imports, with files that reach every branch of the import code: the name of an
# import is a metavariable (it stands for a name in one file and for no name in the next), and two imports go at
# once from blocks with comments and blank lines (what is left must not depend on anything but the file).
IMP_PATCHES = [
    ("@@\nvar foo identifier\nvar x expression\n@@\n-import foo \"example.com/foo-go\"\n+import foo \"example.com/foo\"\n\n-foo.Old(x)\n+foo.New(x)\n",
     ["package a\n\nimport \"example.com/foo-go\"\n\nfunc f() { foo.Old(1) }\n",
      "package a\n\nimport client \"example.com/foo-go\"\n\nfunc f() { client.Old(2); client.Keep() }\n",
      "package a\n\nimport (\n\t\"fmt\"\n\n\tfoo \"example.com/foo-go\"\n)\n\nfunc f() { fmt.Println(foo.Old(3)) }\n",
      "package a\n\nimport (\n\tother \"example.com/foo-go\" // named\n\t\"os\"\n)\n\nfunc f() { other.Old(os.Args) }\n"]),
    ("@@\nvar x expression\n@@\n-import \"example.com/aa\"\n-import \"example.com/bb\"\n\n-aa.Wrap(bb.New(x))\n+x\n", None),
]


def import_blocks(rng, n):
    """n files that import aa and bb in a block of four imports laid out at random"""
    out = []
    for _ in range(n):
        specs = ['"example.com/aa"', '"example.com/bb"', '"fmt"', '"os"']
        if rng.random() < 0.5:
            rng.shuffle(specs)
        lines = ["package p", "", "import ("]
        for i, sp in enumerate(specs):
            if rng.random() < 0.4:
                lines.append("\t// lead %d" % i)
            lines.append("\t" + sp + (" // trailing %d" % i if rng.random() < 0.3 else ""))
            if rng.random() < 0.3 and i < 3:
                lines.append("")
        lines += [")", "", "func f() {", "\tfmt.Println(aa.Wrap(bb.New(os.Args)))", "}", ""]
        out.append("\n".join(lines))
    return out


SOLO_CLASS = {"bad": "error:parse", "rerr": "error:replace", "none": "input"}

CFG_MC = """SPECIFICATION Spec
CONSTANTS
  K1 = "%s"
  K2 = "%s"
  K3 = "%s"
INVARIANT EachAsAlone
INVARIANT DistinctBases
PROPERTY ProgImmutable
PROPERTY NonInterference
PROPERTY Terminates
CHECK_DEADLOCK FALSE
"""
CFG_EMIT = """SPECIFICATION Spec
CONSTANTS
  K1 = "%s"
  K2 = "%s"
  K3 = "%s"
  OutFile = "unused"
INVARIANT PrintDone
CHECK_DEADLOCK FALSE
"""
CFG_TRACE = """SPECIFICATION TraceSpec
CONSTANTS
  K1 = ""
  K2 = ""
  K3 = ""
  TraceFile = "%(trace)s"
  OutFile = "%(out)s"
INVARIANT Flush
POSTCONDITION Accepted
CHECK_DEADLOCK FALSE
"""
CFG_INDEP_EMIT = """SPECIFICATION EmitSpec
CONSTANTS
  FileKinds = {%s}
  MaxFiles = %d
  OutFile = "%s"
CHECK_DEADLOCK FALSE
"""
CFG_INDEP_TRACE = """SPECIFICATION TraceSpec
CONSTANTS
  FileKinds = {"match"}
  MaxFiles = 1
  OutFile = "unused"
  TraceFile = "%s"
  VerdictFile = "%s"
INVARIANT Flush
POSTCONDITION Accepted
CHECK_DEADLOCK FALSE
"""


def schedules(ctx, kinds, name):
    ks = list(kinds) + [""] * (3 - len(kinds))
    r = ctx.tlc("Concurrent", CFG_MC % tuple(ks), "mc-conc-" + name, workers=NCPU, timeout=3000)
    e = ctx.tlc("EmitConcurrent", CFG_EMIT % tuple(ks), "emit-conc-" + name, workers=1, timeout=3000)
    out = []
    for m in re.finditer(r'<<"SCHEDULE", <<([0-9, ]*)>>>>', e["out"]):
        out.append([int(x) for x in m.group(1).split(",")])
    if not out:
        raise Infra("no schedules emitted for %s" % (kinds,))
    return r, out


def classify(kind, res, solo):
    if res["err"]:
        if "could not parse" in res["err"]:
            return "error:parse"
        return "error:replace"
    if solo is not None and res["out"] == solo["src"]:
        return "input"
    return "patched:" + kind


def run_sched(ctx, reqs, name, shards=NCPU):
    shards = max(1, min(shards, len(reqs)))
    parts = [reqs[i::shards] for i in range(shards)]

    def one(ix):
        inp, outp = ctx.path("sched", "%s-%d.in.ndjson" % (name, ix)), ctx.path("sched", "%s-%d.out.ndjson" % (name, ix))
        write_ndjson(inp, parts[ix])
        ctx.run_vh(["sched", "-in", inp, "-out", outp], timeout=3000)
        rs = read_ndjson(outp)
        if len(rs) != len(parts[ix]):
            raise Infra("sched driver returned %d results for %d requests" % (len(rs), len(parts[ix])))
        return rs

    out = {}
    for rs in pmap(one, range(shards)):
        for r in rs:
            out[r["id"]] = r
    return [out[r["id"]] for r in reqs]


def solo_results(ctx, srcs):
    reqs = [dict(id="solo%d" % i, op="apply", patch=PATCH, name="f.go", src=s) for i, s in enumerate(srcs)]
    inp, outp = ctx.path("sched", "solo.in.ndjson"), ctx.path("sched", "solo.out.ndjson")
    write_ndjson(inp, reqs)
    ctx.run_vh(["api", "-in", inp, "-out", outp])
    # the api op prefixes errors of File.Apply with "apply:"
    return {s: dict(out=r["out"], err=re.sub(r"^apply:", "", r["err"]), src=s) for s, r in zip(srcs, read_ndjson(outp))}


def norm_err(e):
    # file names differ between calls (f1.go, f2.go); positions inside messages carry them too
    return re.sub(r'[A-Za-z0-9_./]*\.go', 'F', e)


def validate(ctx, name, lines, shards=NCPU):
    """lines: list of runs, each a list of trace lines (start, pass*, end)."""
    shards = max(1, min(shards, len(lines)))
    parts = [lines[i::shards] for i in range(shards)]

    def one(ix):
        tf = ctx.path("trace", "%s-%d.ndjson" % (name, ix))
        of = ctx.path("trace", "%s-%d.verdicts.ndjson" % (name, ix))
        write_ndjson(tf, [ln for run in parts[ix] for ln in run])
        ctx.tlc("TraceConcurrent", CFG_TRACE % dict(trace=tf, out=of), "trace-%s-%d" % (name, ix), workers=1, timeout=3000)
        vs = read_ndjson(of)
        if len(vs) != len(parts[ix]):
            raise Infra("TraceConcurrent %s-%d: %d runs, %d verdicts" % (name, ix, len(parts[ix]), len(vs)))
        return vs

    out = {}
    for vs in pmap(one, range(shards)):
        for v in vs:
            out[v["id"]] = v
    return out


BLANK = dict(ev="", id="", kinds=[], c=0, p="", same=[], hashes=[], classes=[], extra=0, err="", race="0")


def library_half(ctx, quick, st):
    configs = [("both", "first"), ("first", "second"), ("rerr", "both"), ("none", "bad", "first"), ("second", "rerr"), ("both", "none")]
    if not quick:
        # (three calls that all reach every gate point: ("first", "none", "second") has 7.8 M states, ("first", "first",
        #  "second") did not finish in 25 min - measured; the three-call combinations below have 5 k .. 180 k states)
        configs += [("both", "both"), ("first", "bad", "second"), ("rerr", "rerr"), ("bad", "second", "none")]
    cap = 700 if quick else 20000
    all_srcs = sorted({s for v in SRC.values() for s in v})
    solo = solo_results(ctx, all_srcs)
    for k, v in SRC.items():
        for s in v:
            want = SOLO_CLASS.get(k, "patched:" + k)
            got = classify(k, dict(out=solo[s]["out"], err=solo[s]["err"]), solo[s])
            if got != want:
                raise Infra("source of kind %s behaves as %s when applied alone" % (k, got))
    runs, meta = [], {}
    for ci, kinds in enumerate(configs):
        name = "-".join(kinds)
        r, scheds = schedules(ctx, kinds, name)
        st["states"] += r["distinct"]
        st["transitions"] += r["states"]
        st["schedules_in_model"] += len(scheds)
        if cap and len(scheds) > cap:
            scheds = [scheds[i] for i in sorted(ctx.rng.sample(range(len(scheds)), cap))]
        reqs = []
        for si, order in enumerate(scheds):
            srcs = [ctx.rng.choice(SRC[k]) for k in kinds]
            rid = "s%d-%d" % (ci, si)
            reqs.append(dict(id=rid, patch=PATCH, srcs=srcs, order=order))
            meta[rid] = dict(kinds=list(kinds), srcs=srcs, order=order)
        for req, res in zip(reqs, run_sched(ctx, reqs, "c%d" % ci)):
            m = meta[req["id"]]
            m["res"] = res
            same, classes = [], []
            for c, (k, s) in enumerate(zip(m["kinds"], m["srcs"])):
                rr = res["results"][c] if res["results"] and c < len(res["results"]) else dict(out="", err="<no result>")
                ok = rr["out"] == solo[s]["out"] and norm_err(rr["err"]) == norm_err(solo[s]["err"])
                same.append("1" if ok else "0")
                classes.append(classify(k, rr, solo[s]))
            timeout = "timeout" in (res["err"] or "")
            lines = [dict(BLANK, ev="start", id=req["id"], kinds=m["kinds"])]
            lines += [dict(BLANK, ev="pass", id=req["id"], c=p["c"], p=p["p"]) for p in res["passages"]]
            lines.append(dict(BLANK, ev="end", id=req["id"], same=same, hashes=res["hashes"], classes=classes,
                              extra=len(res["extra"]) + (1 if res["err"] and not timeout else 0), err=res["err"] if timeout else ""))
            runs.append(lines)
    st["schedules_replayed"] = len(runs)
    # sequential histories and free-running goroutines (race detector)
    stress = []
    for i in range(4 if quick else 12):
        ks = [ctx.rng.choice(list(SRC)) for _ in range(ctx.rng.randint(2, 6))]
        stress.append(dict(id="seq%d" % i, patch=PATCH, srcs=[ctx.rng.choice(SRC[k]) for k in ks], goroutines=1, rounds=len(ks) * 2))
    for i in range(3 if quick else 10):
        ks = [ctx.rng.choice(list(SRC)) for _ in range(ctx.rng.randint(2, 5))]
        stress.append(dict(id="par%d" % i, patch=PATCH, srcs=[ctx.rng.choice(SRC[k]) for k in ks], goroutines=8 if quick else 16, rounds=25 if quick else 100))
    for i in range(3 if quick else 8):
        for j, (ptxt, srcs) in enumerate(IMP_PATCHES):
            srcs = list(srcs) if srcs else import_blocks(ctx.rng, 16)
            ctx.rng.shuffle(srcs)
            stress.append(dict(id="imp%d-%d" % (i, j), patch=ptxt, srcs=srcs, goroutines=1, rounds=len(srcs) * (16 if quick else 40)))
            if i % 2 == 1:
                stress.append(dict(id="imppar%d-%d" % (i, j), patch=ptxt, srcs=srcs, goroutines=4, rounds=len(srcs) * 6))
    vr = build_race(ctx)
    inp, outp = ctx.path("sched", "stress.in.ndjson"), ctx.path("sched", "stress.out.ndjson")
    write_ndjson(inp, stress)
    p = subprocess.run([vr, "stress", "-in", inp, "-out", outp], capture_output=True, text=True, timeout=3000,
                       env=dict(GOENV, GORACE="halt_on_error=0"))
    if p.returncode not in (0, 66):
        raise Infra("stress driver failed: " + p.stderr[-2000:])
    race = "DATA RACE" in p.stderr
    sres = read_ndjson(outp)
    st["stress_calls"] = sum(r["calls"] for r in sres)
    for req, r in zip(stress, sres):
        if r["err"]:
            raise Infra("stress: " + r["err"])
        meta[r["id"]] = dict(stress=req, res=r, race_report=p.stderr[-3000:] if race else "")
        runs.append([dict(BLANK, ev="start", id=r["id"], kinds=[]),
                     dict(BLANK, ev="end", id=r["id"], same=["0" if r["mismatches"] else "1"], hashes=[r["hash_before"], r["hash_after"]],
                          race="1" if race else "0")])
    verd = validate(ctx, "conc", runs)
    for lines in runs:
        rid = lines[0]["id"]
        v = verd[rid]
        if v["ieq"] != "1" and lines[0]["kinds"]:
            st["drift"] += 1
        if v["viol"]:
            m = meta[rid]
            ctx.violation("%s: %s kinds=%s" % (rid, ",".join(v["viol"]), m.get("kinds")),
                          dict(kind="schedule", id=rid, violated=v["viol"], patch=PATCH, **{k: m[k] for k in m}))
    st["sample_run"] = runs[0]
    return st


def build_race(ctx):
    out = ctx.path("bin", "vh-race")
    cmd = ["go", "build", "-race", "-tags", "verif", "-o", out]
    if REPO != "/repo":
        cmd += ["-modfile", ctx.path("harness.mod")]
    cmd += ["."]
    ctx.build_harness()
    r = subprocess.run(cmd, cwd=HARNESS, env=dict(GOENV, CGO_ENABLED="1"), capture_output=True, text=True)
    if r.returncode != 0:
        raise Infra("race build of the harness failed:\n" + r.stderr[-2000:])
    return out


# ------------------------------------------------------------------ command half --
KINDS = ["match", "nomatch", "unparseable", "generated", "badresult", "replaceerr"]


def outcome(obs, i):
    return dict(disk=obs["disk"][i - 1], out=[x["what"] for x in obs["stdout"] if x["f"] == i],
                err=[x["what"] for x in obs["stderr"] if x["f"] == i])


def command_half(ctx, quick, st):
    out = ctx.path("vec", "indep.ndjson")
    ctx.tlc("Indep", CFG_INDEP_EMIT % (", ".join('"%s"' % k for k in KINDS), 3, out), "emit-indep", workers=1, timeout=3000)
    runs = read_ndjson(out)
    st["runs_in_model"] = len(runs)
    if quick:
        runs = [runs[i] for i in sorted(ctx.rng.sample(range(len(runs)), 150))]
    elif len(runs) > 2500:
        runs = [runs[i] for i in sorted(ctx.rng.sample(range(len(runs)), 2500))]
    ref = fr.reference_outputs(ctx)
    scs, plan = [], []
    for ri, r in enumerate(runs):
        n = len(r["kinds"])
        contents = [ctx.rng.choice(fr.CONTENT[k]) for k in r["kinds"]]
        # in a third of the runs every change of the patch carries a package clause and the files that nothing
        # matches may belong to another package (they would match but for the clause)
        pkgpatch = ctx.rng.random() < 0.34
        if pkgpatch:
            contents = [fr.OTHERPKG if k == "nomatch" and ctx.rng.random() < 0.7 else c for k, c in zip(r["kinds"], contents)]
        flags = dict(diff=r["mode"] == "diff", print=r["mode"] == "print", skipImports=False, skipGenerated=ctx.rng.random() < 0.5,
                     verbose=ctx.rng.random() < 0.3)
        order = r["order"]
        gk, gc = [r["kinds"][o - 1] for o in order], [contents[o - 1] for o in order]
        ids = dict(group="i%d-g" % ri, again="i%d-a" % ri, solo=["i%d-s%d" % (ri, i) for i in range(n)])
        for sid in (ids["group"], ids["again"]):
            s = fr.realise(ctx, dict(kinds=gk, flags=flags, fault=dict(f=0, p="none"), contents=gc, pkgpatch=pkgpatch), sid, ctx.rng)
            # the order of the arguments is shuffled independently of the file names
            k = len(s["args"]) - (1 if s["meta"]["style"] == "dir" else n)
            tail = s["args"][k:]
            ctx.rng.shuffle(tail)
            s["args"] = s["args"][:k] + tail
            s["strace"] = False
            scs.append(s)
        for i in range(n):
            s = fr.realise(ctx, dict(kinds=[r["kinds"][i]], flags=flags, fault=dict(f=0, p="none"), contents=[contents[i]], pkgpatch=pkgpatch), ids["solo"][i], ctx.rng)
            s["strace"] = False
            scs.append(s)
        plan.append((r, ids, order, flags, contents))
    recs = {x["id"]: x for x in fr.run_cli(ctx, scs, "indep")}
    lines, meta = [], {}
    for r, ids, order, flags, contents in plan:
        n = len(r["kinds"])
        og = fr.abstract(recs[ids["group"]], ref)[0]
        oa = fr.abstract(recs[ids["again"]], ref)[0]
        solo, soloexit = [], []
        for i in range(n):
            o = fr.abstract(recs[ids["solo"][i]], ref)[0]
            solo.append(outcome(o, 1))
            soloexit.append(o["exit"])
        pos = {o: j + 1 for j, o in enumerate(order)}       # original index -> position in the grouped run
        rec = dict(id=ids["group"], solo=solo, group=[outcome(og, pos[i + 1]) for i in range(n)],
                   again=[outcome(oa, pos[i + 1]) for i in range(n)], soloExit=soloexit, exit=og["exit"], exitAgain=oa["exit"])
        lines.append(rec)
        meta[rec["id"]] = dict(kinds=r["kinds"], order=order, mode=r["mode"], flags=flags, contents=contents,
                               stdout=recs[ids["group"]]["stdout"][:1500], stderr=recs[ids["group"]]["stderr"][:1500], record=rec)
    shards = max(1, min(NCPU, len(lines)))
    parts = [lines[i::shards] for i in range(shards)]

    def one(ix):
        tf, of = ctx.path("trace", "indep-%d.ndjson" % ix), ctx.path("trace", "indep-%d.verdicts.ndjson" % ix)
        write_ndjson(tf, parts[ix])
        ctx.tlc("TraceIndep", CFG_INDEP_TRACE % (tf, of), "trace-indep-%d" % ix, workers=1, timeout=3000)
        vs = read_ndjson(of)
        if len(vs) != len(parts[ix]):
            raise Infra("TraceIndep: %d records, %d verdicts" % (len(parts[ix]), len(vs)))
        return vs

    for vs in pmap(one, range(shards)):
        for v in vs:
            if v["viol"]:
                m = meta[v["id"]]
                ctx.violation("%s: %s kinds=%s order=%s mode=%s" % (v["id"], ",".join(v["viol"]), m["kinds"], m["order"], m["mode"]),
                              dict(kind="indep", id=v["id"], violated=v["viol"], patch=fr.PATCH, **m))
    st["multi_file_runs"] = len(lines)
    st["sample_indep"] = lines[0]
    return st


def run(ctx):
    quick = ctx.tier == "quick"
    st = dict(states=0, transitions=0, schedules_in_model=0, drift=0)
    library_half(ctx, quick, st)
    command_half(ctx, quick, st)
    cov = dict(states=st["states"], transitions=st["transitions"], traces_validated_against_impl=st["schedules_replayed"] + st["multi_file_runs"],
               schedules_explored=st["schedules_replayed"], schedules_in_model=st["schedules_in_model"], evaluations=st["schedules_replayed"] + st["multi_file_runs"],
               distinct_nontrivial=st["schedules_replayed"], stress_calls=st["stress_calls"], multi_file_runs=st["multi_file_runs"],
               multi_file_runs_in_model=st["runs_in_model"], model_drift_runs=st["drift"], exhaustive=not quick,
               samples=[st["sample_run"], st["sample_indep"]],
               rule="library: every interleaving of the gate points of 2 (3) concurrent Apply calls for 6 (thorough: 10) combinations of source kinds (both / first / second / no change matches, parse error, failing replacement), enumerated by TLC, %s (thorough: at most 20000 per combination) replayed on real goroutines and validated passage by passage; sequential histories of 4..12 calls and 8..16 free-running goroutines under the race detector; command: sequences of 2..3 files of 6 kinds x argument orders x 3 modes enumerated by TLC, %s, each run twice and compared file by file with the solo run; distinct = distinct schedules" % ("a seeded sample of" if quick else "all", "a seeded sample of 150" if quick else "2500 sampled"))
    return ctx.finish("model_checking", cov, ASSUME)


def replay(ctx, path):
    r = json.load(open(path))
    st = dict(states=0, transitions=0, schedules_in_model=0, drift=0)
    if r["kind"] == "schedule" and "order" in r:
        res = run_sched(ctx, [dict(id="replay", patch=r["patch"], srcs=r["srcs"], order=r["order"])], "replay", shards=1)[0]
        solo = solo_results(ctx, sorted(set(r["srcs"])))
        same = ["1" if (res["results"][c]["out"] == solo[s]["out"] and norm_err(res["results"][c]["err"]) == norm_err(solo[s]["err"])) else "0"
                for c, s in enumerate(r["srcs"])]
        print(json.dumps(dict(passages=res["passages"], results=res["results"], hashes=res["hashes"], same=same), indent=1)[:4000])
        lines = [dict(BLANK, ev="start", id="replay", kinds=r["kinds"])] + [dict(BLANK, ev="pass", id="replay", c=p["c"], p=p["p"]) for p in res["passages"]]
        lines.append(dict(BLANK, ev="end", id="replay", same=same, hashes=res["hashes"], classes=[], extra=0, err=""))
        v = validate(ctx, "replay", [lines], shards=1)["replay"]
        if v["viol"]:
            ctx.violation("replay: " + ",".join(v["viol"]), r)
    else:
        print("replay of this record kind re-runs the quick tier")
        return run(ctx)
    return ctx.finish("model_checking", dict(states=0, transitions=0, traces_validated_against_impl=1, samples=[], rule="replay of one schedule"), ["replay"])
