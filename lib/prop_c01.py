"""C01 - a change rewrites exactly the instances of its '-' pattern."""
import fam_rewrite as fr
from vlib import load_known

ASSUME = [
    "go/parser and go/printer (observers) are correct",
    "harness abstraction alpha and its inverse (self-checked by round trip on every generated vector)",
    "TLC evaluates Pattern.tla faithfully; verdicts are P-layer predicates evaluated on recorded real executions",
    "comparison is modulo ParenExpr (the printer inserts the parentheses an instantiated tree needs)",
]


def run(ctx):
    quick = ctx.tier == "quick"
    bounds = dict(maxargs=2 if quick else 3, maxlist=3)
    known = load_known("C01")
    vecs, subj, nsub = fr.universe_vectors(ctx, "expr", bounds, "C01")
    total_pairs = len(vecs)
    sel = fr.sample(ctx, vecs, 96 if quick else None)
    results = fr.replay_and_judge(ctx, "expr", sel, subj, shards=16)
    # near-miss corpus: operators, literals, names, argument counts, variadic,
    # alias '=', channel direction, grouped declarations, statement shapes ...
    nm = fr.text_vectors(ctx, "corpus/nearmiss/vectors.json", "C01")
    results += fr.replay_and_judge(ctx, "nearmiss", nm, None, shards=8)
    # interaction corpus: labels, several elisions with repeated metavariables, adjacent
    # elisions, optional tokens / parentheses inside bindings, guards that do not hold
    results += fr.replay_and_judge(ctx, "inter", fr.text_vectors(ctx, "corpus/inter/vectors.json", "C01"), None, shards=8)
    # the same universe patterns against files with rich surrounding syntax
    rich = fr.on_files(fr.sample(ctx, vecs, 24 if quick else 200), ["corpus/rich/r1.go", "corpus/rich/r2.go"], "rich corpus")
    results += fr.replay_and_judge(ctx, "rich", rich, None, shards=8)
    st = fr.classify(ctx, results, known, accept_classes=("missed", "collateral", "error"))
    states, trans = fr.mc_counts(ctx)
    cov = dict(states=states, transitions=trans, traces_validated_against_impl=st["cases"],
               samples=[fr.short_sample(results[0]), fr.short_sample(results[len(sel)]), fr.short_sample(results[-1])],
               evaluations=st["cases"], distinct_nontrivial=st["nontrivial"], sites_judged=st["sites"],
               exhaustive=not quick, universe_pairs=total_pairs, universe_subjects=nsub, pairs_replayed=len(sel),
               nearmiss_vectors=len(nm), rich_vectors=len(rich), model_drift_cases=st["drift"],
               rule="design check: every (pattern, replacement) pair of the expr universe x every subject (exhaustive in TLC); replay: %s pairs x all subjects in one file each, %d near-miss corpus vectors, %d pair x rich-file vectors; non-trivial = the input contains at least one outermost admissible instance" % ("a seeded sample of 96" if quick else "all", len(nm), len(rich)),
               cases_failing=st["failing"], sites_failed=st["sites_failed"])
    return ctx.finish("model_checking", cov, ASSUME)
