"""C15 - exactly the requested Go files are processed, each once."""
import json, os, re
import fam_run as fr
from vlib import load_known, read_ndjson, write_ndjson, pmap, Infra, NCPU

ASSUME = [
    "trees of the TLA+ universe are materialised by lib/prop_c15.py (kind of an entry determined by its name; symlinks point outside the walked directory)",
    "a non-idempotent patch (foo(x) -> foo(foo(x))) makes double processing visible in the bytes",
    "arguments naming a *directory* below an excluded directory are not generated (the statement does not constrain them); a file named explicitly is processed wherever it lives",
    "relative arguments are spelled from the root of the tree or from one of its top-level directories (through '..'), with redundant spellings of a directory ('./x', 'x/', 'x/.')",
    "'fixed path order' is read as ascending absolute path (no name of the alphabet is a prefix of another, so component-wise order = string order)",
]

GO = "package a\n\nfunc f() { foo(1) }\n"
ONCE = "package a\n\nfunc f() { foo(foo(1)) }\n"
PATCH = "@@\nvar x expression\n@@\n-foo(x)\n+foo(foo(x))\n"

CFG = """SPECIFICATION Spec
CONSTANTS
  Names = {%s}
  MaxEntries = %d
  MaxArgs = %d
  KeyMode = "real"
  CwdMode = "real"
INVARIANT DesignOK
CHECK_DEADLOCK FALSE
"""
CFG_EMIT = """SPECIFICATION EmitSpec
CONSTANTS
  Names = {%s}
  MaxEntries = %d
  MaxArgs = 1
  KeyMode = "real"
  CwdMode = "real"
  OutFile = "%s"
CHECK_DEADLOCK FALSE
"""
CFG_TRACE = """SPECIFICATION TraceSpec
CONSTANTS
  Names = {%s}
  MaxEntries = 3
  MaxArgs = 3
  KeyMode = "real"
  CwdMode = "real"
  TraceFile = "%s"
  OutFile = "%s"
INVARIANT Flush
POSTCONDITION Accepted
CHECK_DEADLOCK FALSE
"""
ALL_NAMES = ["a.go", "b.go", "c.txt", "vendor", "testdata", ".h", "_u", "sub", "d.go", "l.go", "ld", "_g.go"]
DIRS = {"vendor", "testdata", ".h", "_u", "sub", "d.go", "_g.go"}
ALPHABETS = [
    ["a.go", "c.txt", "vendor", "sub", "d.go", "l.go"],
    ["a.go", "b.go", "testdata", "sub", "ld", ".h"],
    ["a.go", "c.txt", "_u", "sub", "d.go", "ld"],
]
# a small alphabet that is always used: an excluded directory whose name ends in .go, next to and below ordinary entries
SMALL = ["a.go", "b.go", "sub", "_g.go"]


def q(l):
    return ", ".join('"%s"' % x for x in l)


def KIND_IS_DIR(path):
    return not path or path[-1] in DIRS


def materialise(t, args, sid, rng=None):
    files, dirs, links = [], [], []

    def add(path):
        name = path[-1]
        rel = "w/" + "/".join(path)
        up = "../" * len(path)
        if name in ("a.go", "b.go", "c.txt"):
            files.append(dict(path=rel, content=GO))
        elif name in DIRS:
            dirs.append(rel)
        elif name == "l.go":
            links.append(dict(path=rel, target=up + "ext/x.go"))
        elif name == "ld":
            links.append(dict(path=rel, target=up + "ext"))

    for n in t["top"]:
        add([n])
        if n in DIRS:
            for c in t["kids"].get(n, []):
                add([n, c])
    links.append(dict(path="wl", target="w"))
    files.append(dict(path="ext/x.go", content=GO))
    files.append(dict(path="p.patch", content=PATCH))
    argv = ["-v", "-p", "{ROOT}/p.patch"]
    # the working directory: the root of the tree or one of its top-level directories; relative
    # arguments are spelled relative to it (so they may go through ".."), with redundant spellings
    # of the same directory ("./x", "x/", "x/.") mixed in
    import posixpath
    cwd = []
    if rng is not None:
        subs = [n for n in t["top"] if n in DIRS]
        if subs and rng.random() < 0.5:
            cwd = [rng.choice(subs)]
    # ... and it may have been entered through the link that lies next to the tree (cd wl; cd wl/sub): PWD then
    # spells it through the link, the directory itself is the same (Discover.tla: cwdvia)
    cwdvia = "l" if rng is not None and rng.random() < 0.3 else "w"
    for a in args:
        p = "/".join(a["path"])
        if a["abs"] == "1":
            s = "{ROOT}/" + ("wl" if p and a.get("via") == "l" else "w") + ("/" + p if p else "")
            # redundant spellings of an absolute path: "." and ".." elements, doubled and trailing separators
            if rng is not None and a["dots"] != "1":
                isdir = KIND_IS_DIR(a["path"])
                s = rng.choice([s, s, s, "{ROOT}/w/." + ("/" + p if p else ""), "{ROOT}/w/../w" + ("/" + p if p else ""),
                                "{ROOT}//w" + ("/" + p if p else "")] + ([s + "/", s + "/."] if isdir else []))
        else:
            # "/w" stands for the tree, "/wl" for a symbolic link to it that lies next to it: some relative and
            # absolute arguments reach their target through the link (another spelling of the same files)
            via = "wl" if p and a.get("via") == "l" else "w"      # (not the link itself: p is not empty)
            s = posixpath.relpath("/%s/%s" % (via, p) if p else "/" + via, "/w/" + "/".join(cwd) if cwd else "/w")
            if rng is not None and KIND_IS_DIR(a["path"]) and a["dots"] != "1":
                s = rng.choice([s, s, s, "./" + s, s + "/", s + "/."])
        if a["dots"] == "1":
            s += "/..."
        argv.append(s)
    return dict(id=sid, files=files, dirs=["w"] + dirs, symlinks=links, args=argv, stdin="", cwd="/".join([{"w": "w", "l": "wl"}[cwdvia]] + cwd), pwd_logical=cwdvia != "w", strace=False,
                meta=dict(tree=t, args=args, cwd=cwd, cwdvia=cwdvia))


def observe(rec):
    before = {e["path"]: e for e in rec["before"]}
    after = {e["path"]: e for e in rec["after"]}
    changed, twice, other = [], [], []
    for p in sorted(set(before) | set(after)):
        b, a = before.get(p), after.get(p)
        if a is None or b is None:
            other.append(p)
            continue
        if any(a[k] != b[k] for k in ("sha", "size", "type")) or (a["type"] != "d" and (a["mtime"] != b["mtime"] or a["mode"] != b["mode"])):
            if p.startswith("w/") and a["type"] == "f":
                changed.append(p[2:].split("/"))
                if rec["content"].get(p) != ONCE:
                    twice.append(p[2:].split("/"))
            else:
                other.append(p)
    vlines = []
    pre = rec["root"] + "/w/"
    # the -v lines ("<file>: patched"), in the order in which they were written (which stream carries them is C12's business)
    for stream in ("stdout", "stderr"):
        for ln in rec[stream].split("\n"):
            m = re.match(r"(?:generated file )?(\S+): (patched|skipped)$", ln)
            if m and (m.group(1).startswith(pre) or m.group(1).startswith(pre[:-1] + "l/")):
                # (a file that was named through the link next to the tree may be reported under that spelling)
                vlines.append(m.group(1)[len(pre) + (0 if m.group(1).startswith(pre) else 1):].split("/"))
            elif ln:
                other.append(stream + ":" + ln[:200])
    return dict(changed=changed, twice=twice, vlines=vlines, other=other, exit=rec["exit"])


def run(ctx):
    quick = ctx.tier == "quick"
    known = load_known("C15")
    results = []
    states = trans = 0
    ntrees = nscen = 0
    alphabets = (ALPHABETS[:1] if quick else ALPHABETS) + [SMALL]
    per = 420 if quick else 4000
    for ai, names in enumerate(alphabets):
        # (quick: the design check leaves out the last name of the alphabet - 2.1 M pairs with it, measured)
        r = ctx.tlc("Discover", CFG % (q(names if names is SMALL else (names[:-1] if quick else names[:6])), 2, 2), "mc-discover-%d" % ai, workers=NCPU, timeout=3000)
        states += r["distinct"]
        trans += r["states"]
        out = ctx.path("vec", "trees-%d.ndjson" % ai)
        ctx.tlc("EmitDiscover", CFG_EMIT % (q(names), 2, out), "emit-discover-%d" % ai, workers=1, timeout=900)
        trees = read_ndjson(out)
        ntrees += len(trees)
        scs = []
        # half of the scenarios use trees with a Go file at the top and one inside a directory
        # (arguments and working directories that differ then give different file sets)
        rich = [t for t in trees if any(n in ("a.go", "b.go") for n in t["top"]) and
                any(any(c in ("a.go", "b.go") for c in t["kids"].get(d, [])) for d in t["top"] if d in DIRS)] or trees
        # ... and some use trees in which a symbolic link is followed (in directory order) by a directory that holds a
        # Go file: what the walk does with the link must not decide what happens to the entries after it
        linked = [t for t in trees if any(n in ("l.go", "ld") for n in t["top"]) and
                  any(d > "ld" and any(c in ("a.go", "b.go") for c in t["kids"].get(d, [])) for d in t["top"] if d == "sub")] or rich
        for k in range(per):
            t = ctx.rng.choice(linked if k % 4 == 3 else rich if k % 2 else trees)
            n = ctx.rng.choice([1, 2, 2, 3])
            args = [ctx.rng.choice(t["args"]) for _ in range(n)]
            if ctx.rng.random() < 0.3:
                args.append(dict(args[0]))                     # repeated argument
            if ctx.rng.random() < 0.3:
                args.append(dict(args[0], abs="1" if args[0]["abs"] == "0" else "0"))   # same target, other form
            if args[0]["path"] and ctx.rng.random() < 0.3:
                args.append(dict(args[0], via="l" if args[0].get("via") == "w" else "w"))   # same target, through / not through the link
            scs.append(materialise(t, args, "c15-%d-%d" % (ai, k), ctx.rng))
        nscen += len(scs)
        recs = fr.run_cli(ctx, scs, "c15-%d" % ai)
        shards = NCPU
        parts = [recs[i::shards] for i in range(shards)]

        def one(ix, parts=parts, ai=ai, names=names):
            tf = ctx.path("trace", "c15-%d-%d.ndjson" % (ai, ix))
            of = ctx.path("trace", "c15-%d-%d.verdicts.ndjson" % (ai, ix))
            lines = []
            for rec in parts[ix]:
                t = rec["meta"]["tree"]
                kids = {d: t["kids"].get(d, []) for d in DIRS}
                lines.append(dict(id=rec["id"], top=t["top"], kids=kids, args=rec["meta"]["args"], cwdvia=rec["meta"].get("cwdvia", "w"), obs=observe(rec)))
            if os.environ.get("VERIF_SELFTEST") == "corrupt" and ix == 0:
                # falsify one observation: the first run that patched something is recorded as having patched nothing
                for ln in lines:
                    if ln["obs"]["changed"]:
                        ln["obs"] = dict(ln["obs"], changed=[])
                        break
            write_ndjson(tf, lines)
            ctx.tlc("TraceDiscover", CFG_TRACE % (q(ALL_NAMES), tf, of), "trace-c15-%d-%d" % (ai, ix), workers=1, timeout=1800)
            vs = read_ndjson(of)
            if len(vs) != len(lines):
                raise Infra("TraceDiscover: %d records, %d verdicts" % (len(lines), len(vs)))
            return list(zip(parts[ix], lines, vs))

        for res in pmap(one, range(shards)):
            results += res
    drift = nontrivial = 0
    distinct = set()
    for rec, line, v in results:
        distinct.add(json.dumps([line["top"], line["kids"], line["args"]], sort_keys=True))
        if line["obs"]["changed"]:
            nontrivial += 1
        if v["ieq"] != "1":
            drift += 1
        if v["viol"]:
            ctx.violation("%s: %s args=%s" % (rec["id"], ",".join(v["viol"]), rec["args"] if "args" in rec else line["args"]),
                          dict(kind="discover", id=rec["id"], violated=v["viol"], tree=line["top"], kids=line["kids"], args=line["args"],
                               observed=line["obs"], stdout=rec["stdout"][:2000], stderr=rec["stderr"][:1000]))
    r0 = results[0]
    cov = dict(states=states, transitions=trans, traces_validated_against_impl=len(results),
               samples=[dict(tree=r0[1]["top"], kids=r0[1]["kids"], args=r0[1]["args"], observed=r0[1]["obs"])],
               evaluations=len(results), distinct_nontrivial=len(distinct), runs_that_patched_something=nontrivial,
               trees_in_universe=ntrees, model_drift_runs=drift, exhaustive=False,
               rule="design: every tree of depth 2 with <=2 entries per directory over a 6-name alphabet x every argument list of <=2 entries (TLC, exhaustive, I = P); replay: seeded sample of (tree, argument list of 1..5 entries incl. repeated and relative/absolute duplicates) materialised on disk; distinct = distinct (tree, argument list)")
    return ctx.finish("model_checking", cov, ASSUME)
