"""C03 - rewritten code is the '+' pattern instantiated with what was captured."""
import fam_rewrite as fr
from vlib import load_known

ASSUME = [
    "go/parser and go/printer (observers) are correct",
    "harness abstraction alpha and its inverse (self-checked by round trip on every generated vector)",
    "TLC evaluates Pattern.tla faithfully; verdicts are P-layer predicates evaluated on recorded real executions",
    "comparison is modulo ParenExpr (the printer inserts the parentheses an instantiated tree needs)",
]


def run(ctx):
    quick = ctx.tier == "quick"
    bounds = dict(maxargs=2 if quick else 3, maxlist=3)
    known = dict(load_known("C03"))
    results = []
    tot = 0
    for u in ("expr", "meta"):
        vecs, subj, nsub = fr.universe_vectors(ctx, u, bounds, "C03")
        tot += len(vecs)
        sel = fr.sample(ctx, vecs, 64 if quick else 480)      # (all pairs x 9 positions is 5 GB of recorded trees)
        for k, v in enumerate(sel):
            v["tmpl"] = "exprs"      # every subject at nine syntactic positions
            v["subj_stride"], v["subj_offset"] = (8, k) if quick else (3, k)
        results += fr.replay_and_judge(ctx, u, sel, subj, shards=16)
    # admissibility: replacements that do not fit the slot (a selector or call
    # where only a name may appear) must leave the site unchanged
    slots = fr.text_vectors(ctx, "corpus/slots/vectors.json", "C03")
    results += fr.replay_and_judge(ctx, "slots", slots, None, shards=4)
    results += fr.replay_and_judge(ctx, "inter", fr.text_vectors(ctx, "corpus/inter/vectors.json", "C03"), None, shards=8)
    st = fr.classify(ctx, results, known, accept_classes=("wrongrepl", "error", "missed"))
    states, trans = fr.mc_counts(ctx)
    cov = dict(states=states, transitions=trans, traces_validated_against_impl=st["cases"],
               samples=[fr.short_sample(results[0]), fr.short_sample(results[-1])],
               evaluations=st["cases"], distinct_nontrivial=st["nontrivial"], sites_judged=st["sites"],
               exhaustive=False, universe_pairs=tot, slot_vectors=len(slots), model_drift_cases=st["drift"],
               rule="pairs of the expr and meta universes (replacements use, duplicate, reorder, drop metavariables) x all subjects, each subject at nine syntactic positions of one file (every site has its own binding); plus slot-admissibility vectors; non-trivial = at least one instance in the input",
               cases_failing=st["failing"], sites_failed=st["sites_failed"])
    return ctx.finish("model_checking", cov, ASSUME)
