"""C03 - rewritten code is the '+' pattern instantiated with what was captured."""
import fam_rewrite as fr
import fam_imports as fi
from vlib import load_known

ASSUME = [
    "go/parser and go/printer (observers) are correct",
    "harness abstraction alpha and its inverse (self-checked by round trip on every generated vector)",
    "TLC evaluates Pattern.tla faithfully; verdicts are P-layer predicates evaluated on recorded real executions",
    "comparison is modulo ParenExpr (the printer inserts the parentheses an instantiated tree needs)",
]


def run(ctx):
    quick = ctx.tier == "quick"
    bounds = dict(maxargs=2 if quick else 3, maxlist=3)
    known = dict(load_known("C03"))
    results = []
    tot = 0
    for u in ("expr", "meta"):
        vecs, subj, nsub = fr.universe_vectors(ctx, u, bounds, "C03")
        tot += len(vecs)
        sel = fr.sample(ctx, vecs, 64 if quick else 480)      # (all pairs x 9 positions is 5 GB of recorded trees)
        for k, v in enumerate(sel):
            v["tmpl"] = "exprs"      # every subject at nine syntactic positions
            v["subj_stride"], v["subj_offset"] = (8, k) if quick else (3, k)
        results += fr.replay_and_judge(ctx, u, sel, subj, shards=16)
    # admissibility: replacements that do not fit the slot (a selector or call
    # where only a name may appear) must leave the site unchanged
    slots = fr.text_vectors(ctx, "corpus/slots/vectors.json", "C03")
    results += fr.replay_and_judge(ctx, "slots", slots, None, shards=4)
    results += fr.replay_and_judge(ctx, "inter", fr.text_vectors(ctx, "corpus/inter/vectors.json", "C03"), None, shards=8)
    # a metavariable bound by an import line of the patch (the name of the import) and mentioned by the '+' code:
    # scenarios of spec/Imports.tla whose '-'/context imports are named by a metavariable, judged by TraceImports
    scs = fi.emit(ctx, "edits", ["x/p", "x/q"], ["x/o"], 2, 1 if quick else 8, 2 if quick else 4, "c03-imports")
    scs = [s for s in scs if s["holds"] == "1" and any(pi["form"] == "meta" and pi["side"] in ("ctx", "minus") for pi in s["pimps"])]
    imeta, ilines = fi.run_cases(ctx, scs, "c03i", allow_ref=True)
    ist = fi.judge(ctx, imeta, ilines, fi.validate(ctx, "c03i", imeta, ilines), {"C03_PlusUnderCapturedName"}, {})
    iplus = sum(1 for m in imeta if m["code"][3] and m["obs"]["changed"])
    if iplus == 0:
        raise fr.Infra("vacuous import run: no '+' code through an import metavariable was written")
    st = fr.classify(ctx, results, known, accept_classes=("wrongrepl", "error", "missed"))
    states, trans = fr.mc_counts(ctx)
    cov = dict(states=states, transitions=trans, traces_validated_against_impl=st["cases"],
               samples=[fr.short_sample(results[0]), fr.short_sample(results[-1])],
               evaluations=st["cases"], distinct_nontrivial=st["nontrivial"], sites_judged=st["sites"],
               exhaustive=False, universe_pairs=tot, slot_vectors=len(slots), model_drift_cases=st["drift"],
               rule="pairs of the expr and meta universes (replacements use, duplicate, reorder, drop metavariables) x all subjects, each subject at nine syntactic positions of one file (every site has its own binding); plus slot-admissibility vectors; non-trivial = at least one instance in the input",
               cases_failing=st["failing"], sites_failed=st["sites_failed"],
               import_metavariable_cases=ist["judged"], import_metavariable_plus_calls_judged=iplus)
    return ctx.finish("model_checking", cov, ASSUME)


def replay(ctx, path):
    import json
    r = json.load(open(path))
    if r.get("kind") == "imports":
        return fi.replay(ctx, path, {"C03_PlusUnderCapturedName"}, "C03")
    print("replay of this record kind re-runs the quick tier")
    return run(ctx)
