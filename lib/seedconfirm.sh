#!/bin/bash
# seedconfirm.sh <change-dir>   e.g. /tmp/mut/out/C18/change1  or /verif/seeded/C18-1
# Confirms in a scratch worktree of /repo (removed afterwards) that the seeded change
#   (1) applies and compiles, (2) leaves the pinned test suite green,
#   (3) makes its demonstration fail, and (4) the demonstration passes without it.
# Commands are taken from demo/RUN.txt (lines before "Expected", '<this dir>' = demo dir).
set -u
D=$(readlink -f "$1"); DEMO=$D/demo
export GOFLAGS=-mod=mod GOPROXY=off GOSUMDB=off GOTOOLCHAIN=local
W=$(mktemp -d /tmp/seedconfirm.XXXXXX); rmdir "$W"
git -C /repo worktree add --detach "$W" HEAD >/dev/null 2>&1 || { echo "cannot create worktree"; exit 2; }
trap 'git -C /repo worktree remove --force "$W" >/dev/null 2>&1; rm -rf "$W"' EXIT
script=$(python3 - "$DEMO" <<'PY'
import re, sys
demo = sys.argv[1]
out = ["set -o pipefail", "rc=0"]
for line in open(demo + "/RUN.txt"):
    if line.startswith("Expected"):
        break
    l = line.strip()
    if l.startswith("$ "):
        l = l[2:]
    if not re.match(r"(export|cp|timeout|go|rm|mkdir|cd|bash|sh|chmod|\./|GOFLAGS=|rc=\d+ *;)", l):
        continue
    l = re.sub(r"\s+#.*$", "", l)
    for ph in ("<this dir>", "<this-dir>", "<demo dir>", "<demo>", "<this directory>", "<DEMO>", "$DEMO", "<dir>"):
        l = l.replace(ph, demo)
    if l.startswith(("export", "cd ")):
        out.append(l)
    else:
        out.append("{ " + l + "\n} || rc=1")
out.append("exit $rc")
print("\n".join(out))
PY
)
rundemo() { (cd "$W" && bash -c "$script") > "$W/../$(basename $W).demo.log" 2>&1; local rc=$?; tail -5 "$W/../$(basename $W).demo.log" | sed 's/^/      /'; rm -f "$W/../$(basename $W).demo.log"; return $rc; }
echo "== demo on unchanged checkout (expect pass)"
if rundemo; then echo "   PASS (as expected)"; clean_ok=1; else echo "   FAIL (unexpected)"; clean_ok=0; fi
(cd "$W" && git checkout -- . && git clean -fdq)
echo "== apply patch"
(cd "$W" && git apply "$D/patch.diff" 2>/dev/null || git apply --3way "$D/patch.diff") || { echo "   patch does not apply"; exit 3; }
(cd "$W" && go build ./... ) || { echo "   does not compile"; exit 3; }
echo "== pinned suite with the change (expect pass)"
if (cd "$W" && timeout 1500 go test -vet=off -count=1 ./... 2>&1 | grep -v "no test files" | grep -v "^ok" | head -20 | grep . ); then echo "   SUITE FAILS"; suite_ok=0; else echo "   suite passes"; suite_ok=1; fi
echo "== demo with the change (expect fail)"
if rundemo; then echo "   PASS (unexpected: change not demonstrated)"; mut_fail=0; else echo "   FAIL (as expected)"; mut_fail=1; fi
echo "RESULT clean_demo_pass=$clean_ok suite_pass=$suite_ok demo_fails_with_change=$mut_fail"
[ "$clean_ok$suite_ok$mut_fail" = "111" ]
