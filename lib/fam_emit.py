"""Mode agreement (C12) and emitted-content-parses (C07) over (patch, file, flags) cases.

Every case is run through the real binary in write, --print-only and --diff mode and
through the library API; TLC (spec/TraceModes.tla) evaluates the relations."""
import os, re
import fam_rewrite as frw
import fam_run as fr
from vlib import Infra, read_ndjson, write_ndjson, NCPU

CFG = """SPECIFICATION Spec
CONSTANTS
  TraceFile = "%(trace)s"
  OutFile = "%(out)s"
INVARIANT Flush
POSTCONDITION Accepted
CHECK_DEADLOCK FALSE
"""

FILE = "dir/target.go"
TWIN = "dir/twin.go"     # a second name (hard link) of FILE in the scenarios that say so


def cases(ctx, quick):
    """(patch text, source) pairs with interesting replacements."""
    out = []
    vecs = frw.text_vectors(ctx, "corpus/slots/vectors.json", "C07")
    vecs += frw.text_vectors(ctx, "corpus/nearmiss/vectors.json", "C07")
    vecs += frw.text_vectors(ctx, "corpus/badfit/vectors.json", "C07")
    if quick:
        keep = [v for v in vecs if v["id"].startswith(("slot-", "bad-"))]
        rest = [v for v in vecs if not v["id"].startswith(("slot-", "bad-"))]
        vecs = keep + frw.sample(ctx, rest, 40)
    vf = ctx.path("emit", "vec.ndjson")
    cf = ctx.path("emit", "cases.ndjson")
    write_ndjson(vf, vecs)
    ctx.run_vh(["rewrite", "-in", vf, "-out", cf])
    for c in read_ndjson(cf):
        # ("outparse:" is the harness noting that what Apply RETURNED does not parse - not an error of the API)
        out.append(dict(id=c["id"], patch=c["patch"], src=c["src"], api_out=c["got"], api_err="" if c["err"].startswith("outparse:") else c["err"]))
    # a change that matches but rewrites to the same text: what remains is formatting and import processing,
    # which every mode and the library must do alike
    ident = "@@\nvar x expression\n@@\n-foo(x)\n+foo(x)\n"
    messy = ["package a\n\nimport (\n\t\"os\"\n\t\"example.com/x\"\n\t\"fmt\"\n)\n\nfunc f() { foo(os.Args, x.Y, fmt.Sprint()) }\n",
             "package a\n\nimport \"os\"\nimport \"example.com/x\"\n\nfunc   f( ) {\n  foo( os.Args,x.Y )\n}\n",
             "package a\r\n\r\nimport (\r\n\t\"fmt\"\r\n\t\"bytes\"\r\n)\r\n\r\nfunc f() { foo(fmt.Sprint(bytes.MinRead)) }\r\n",
             "package a\n\nfunc f() { foo(1) }\n",
             # gofmt-clean, but import processing regroups (standard library first, blank line, others)
             "package a\n\nimport (\n\t\"example.com/x\"\n\t\"fmt\"\n)\n\nfunc f() { foo(x.Y, fmt.Sprint()) }\n",
             "package a\n\nimport (\n\t\"fmt\"\n\t\"golang.org/x/tools/imports\"\n\t\"os\"\n)\n\nfunc f() { foo(fmt.Sprint(imports.Debug, os.Args)) }\n",
             "package a\n\nimport (\n\t\"fmt\"\n\n\n\t\"os\"\n)\n\nfunc f() { foo(fmt.Sprint(os.Args)) }\n"]
    for i, c in enumerate(messy):
        out.append(dict(id="ident-%d" % i, patch=ident, src=c, api_out=None, api_err=None))
    # pipeline kinds, every layout incl. CRLF
    for kind in ("match", "generated", "badresult", "nomatch", "replaceerr"):
        for i, c in enumerate(fr.CONTENT[kind] + ([fr.CRLF_MATCH] if kind == "match" else [])):
            out.append(dict(id="kind-%s-%d" % (kind, i), patch=fr.PATCH, src=c, api_out=None, api_err=None))
    # comments inside and right next to a rewritten expression that stays on one line, and spanning lines
    inl = ["package a\n\nfunc f() {\n\tuse(1, ptr(v /* the value */), 2)\n\tuse(ptr( /* lead */ w), 3) // eol\n}\n",
           "package a\n\nfunc f() {\n\tuse(ptr(v), /* between */ ptr(w))\n\tuse(ptr(\n\t\t// own line\n\t\tv,\n\t))\n}\n"]
    for i, c in enumerate(inl):
        out.append(dict(id="inline-cmt-%d" % i, patch="@@\nvar x expression\n@@\n-ptr(x)\n+&x\n", src=c, api_out=None, api_err=None))
        out.append(dict(id="inline-cmt-same-%d" % i, patch="@@\nvar x expression\n@@\n-ptr(x)\n+ref(x)\n", src=c, api_out=None, api_err=None))
    # no newline at the end of the file (the rewritten file always ends with one)
    out.append(dict(id="kind-match-nonl", patch=fr.PATCH, src=fr.MATCH.rstrip("\n"), api_out=None, api_err=None))
    out.append(dict(id="kind-match-nonl-last", patch=fr.PATCH, src="package a\n\nfunc f() {\n\tfoo(1)\n}\n\nvar last = foo(2)", api_out=None, api_err=None))
    # a line longer than any line buffer (64 KiB is the default of bufio.Scanner), LF and CRLF
    long_line = "package a\n\nvar s = \"" + "x" * 70000 + "\"\n\nfunc f() {\n\tfoo(1)\n}\n"
    out.append(dict(id="kind-match-longline", patch=fr.PATCH, src=long_line, api_out=None, api_err=None))
    # one file under two names (hard links), both given to the command, and a change whose result still matches
    # it: each name's bytes are what the dry modes show for that name and what the API returns for the original bytes
    again = "@@\nvar x expression\n@@\n-wait(x)\n+wait(2 * x)\n"
    out.append(dict(id="twin-again", patch=again, src="package a\n\nfunc f() {\n\twait(3)\n}\n", api_out=None, api_err=None, twin=True))
    out.append(dict(id="twin-match", patch=fr.PATCH, src=fr.MATCH, api_out=None, api_err=None, twin=True))
    out.append(dict(id="kind-match-longline-crlf", patch=fr.PATCH, src=long_line.replace("\n", "\r\n"), api_out=None, api_err=None))
    return out


def part_of(stdout, c, mode):
    """what the run printed for the name that the case stands for (runs over two names of one file print two parts)"""
    if not c.get("twin"):
        return stdout
    k = 1 if c.get("twin") == 2 else 0
    if mode == "d":
        parts = re.split(r"(?m)^(?=--- )", stdout)
        parts = [p for p in parts if p]
        want = TWIN if k else FILE
        return "".join(p for p in parts if p.split("\n", 1)[0].rstrip().endswith(want))
    # --print-only: the new text of each file, in the order of processing (the names sort as FILE < TWIN)
    half = len(stdout) // 2
    if stdout[:half] == stdout[half:]:
        return stdout[:half]
    return stdout


def run_modes(ctx, cs):
    scs, reqs = [], []
    twins = []
    for c in cs:
        if c.get("twin"):
            # the record of the second name is made from the same runs
            twins.append(dict(c, id=c["id"] + "-2nd", twin=2))
    cs += twins
    for c in cs:
        for si in (False, True):
            for mode, flag in (("w", []), ("p", ["--print-only"]), ("d", ["--diff"])):
                if c.get("twin") == 2:
                    continue
                scs.append(dict(id="%s|%d|%s" % (c["id"], si, mode),
                                files=[dict(path=FILE, content=c["src"]), dict(path="p.patch", content=c["patch"])],
                                hardlinks=[dict(path=TWIN, target=FILE)] if c.get("twin") else [],
                                dirs=[], symlinks=[], args=flag + (["--skip-import-processing"] if si else []) + ["-p", "p.patch", FILE] + ([TWIN] if c.get("twin") else []),
                                stdin="", cwd="", strace=False, timeout_ms=20000))
        if c["api_out"] is None:
            reqs.append(dict(id=c["id"], op="apply", patch=c["patch"], name="target.go", src=c["src"]))
    recs = {r["id"]: r for r in fr.run_cli(ctx, scs, "modes")}
    if reqs:
        inp, outp = ctx.path("emit", "api.in.ndjson"), ctx.path("emit", "api.out.ndjson")
        write_ndjson(inp, reqs)
        ctx.run_vh(["api", "-in", inp, "-out", outp])
        api = {r["id"]: r for r in read_ndjson(outp)}
        for c in cs:
            if c["api_out"] is None:
                c["api_out"], c["api_err"] = api[c["id"]]["out"], api[c["id"]]["err"]
    # apply diffs, parse everything
    reqs = []
    for c in cs:
        if c.get("twin") == 2:
            for si in (0, 1):
                for mode in ("w", "p", "d"):
                    recs["%s|%d|%s" % (c["id"], si, mode)] = recs["%s|%d|%s" % (c["id"][:-4], si, mode)]
    for c in cs:
        for si in (0, 1):
            d = recs["%s|%d|d" % (c["id"], si)]
            reqs.append(dict(id="%s|%d|applydiff" % (c["id"], si), op="applydiff", src=c["src"], diff=part_of(d["stdout"], c, "d")))
    inp, outp = ctx.path("emit", "ad.in.ndjson"), ctx.path("emit", "ad.out.ndjson")
    write_ndjson(inp, reqs)
    ctx.run_vh(["api", "-in", inp, "-out", outp])
    ad = {r["id"]: r for r in read_ndjson(outp)}
    lines = []
    contents = {}
    for c in cs:
        for si in (0, 1):
            m = {}
            for mode in ("w", "p", "d"):
                r = recs["%s|%d|%s" % (c["id"], si, mode)]
                if r["timeout"]:
                    out = "<timeout>"
                elif mode == "w":
                    out = r["content"].get(TWIN if c.get("twin") == 2 else FILE, "<missing>")
                elif mode == "p":
                    out = part_of(r["stdout"], c, "p")
                else:
                    a = ad["%s|%d|applydiff" % (c["id"], si)]
                    out = a["out"] if not a["err"] else "<diff does not apply: %s>" % a["err"]
                if r["exit"] != 0 and mode in ("p", "d") and out == "" or (mode == "d" and r["exit"] != 0):
                    out = c["src"] if r["stdout"] == "" else out
                m[mode] = dict(out=out, exit=r["exit"], named="1" if FILE in r["stderr"] or "target.go" in r["stderr"] or "p.patch" in r["stderr"] else "0",
                               changed="1" if out != c["src"] else "0", parses="?", stderr=r["stderr"][:300],
                               # a diff that does not apply is C12's business (mode agreement), not a parse failure
                               noparse=out.startswith("<diff does not apply"))
            rec = dict(id="%s|%d" % (c["id"], si), m=m, useApi="0" if si else "1",
                       api=dict(out=c["api_out"] if not c["api_err"] else "", err=c["api_err"] or "", parses="?",
                                same="1" if (not c["api_err"] and c["api_out"] == c["src"]) else "0"))
            lines.append(rec)
            contents[rec["id"]] = c
    # go/parser verdicts
    reqs = []
    for rec in lines:
        for mode in ("w", "p", "d"):
            reqs.append(dict(id=rec["id"] + "|" + mode, op="parses", src=rec["m"][mode]["out"]))
        reqs.append(dict(id=rec["id"] + "|api", op="parses", src=rec["api"]["out"]))
    inp, outp = ctx.path("emit", "pa.in.ndjson"), ctx.path("emit", "pa.out.ndjson")
    write_ndjson(inp, reqs)
    ctx.run_vh(["api", "-in", inp, "-out", outp])
    pa = {r["id"]: r for r in read_ndjson(outp)}
    for rec in lines:
        for mode in ("w", "p", "d"):
            rec["m"][mode]["parses"] = "1" if (not pa[rec["id"] + "|" + mode]["err"] or rec["m"][mode].pop("noparse", False)) else "0"
            rec["m"][mode].pop("noparse", None)
        rec["api"]["parses"] = "1" if not pa[rec["id"] + "|api"]["err"] else "0"
    return lines, contents


def judge(ctx, lines, contents, preds, known, kf):
    tf, of = ctx.path("emit", "trace.ndjson"), ctx.path("emit", "verdicts.ndjson")
    slim = [dict(l, m={k: {kk: vv for kk, vv in v.items() if kk != "stderr"} for k, v in l["m"].items()}) for l in lines]
    write_ndjson(tf, slim)
    ctx.tlc("TraceModes", CFG % dict(trace=tf, out=of), "trace-modes", workers=1, timeout=1800)
    vs = read_ndjson(of)
    if len(vs) != len(lines):
        raise Infra("TraceModes: %d records, %d verdicts" % (len(lines), len(vs)))
    st = dict(cases=len(lines), changed=0, emitted=0, reported=0)
    for rec, v in zip(lines, vs):
        if any(rec["m"][m]["changed"] == "1" for m in rec["m"]):
            st["changed"] += 1
        st["emitted"] += sum(1 for m in rec["m"] if rec["m"][m]["exit"] == 0 and rec["m"][m]["changed"] == "1")
        st["reported"] += sum(1 for m in rec["m"] if rec["m"][m]["exit"] != 0)
        bad = [x for x in v["viol"] if x in preds]
        if not bad:
            continue
        c = contents[rec["id"]]
        unknown = []
        for x in bad:
            key = next((k for k, fn in kf.items() if k in known and fn(rec, c, x)), None)
            if key:
                ctx.known(key, known[key], rec["id"])
            else:
                unknown.append(x)
        if unknown:
            ctx.violation("%s: %s" % (rec["id"], ",".join(unknown)),
                          dict(kind="modes", id=rec["id"], violated=unknown, patch=c["patch"], src=c["src"], modes=rec["m"], api=rec["api"]))
    return st


def kf_crlf(rec, c, viol):
    return viol == "ModesAgree" and "\r\n" in c["src"]


def kf_skip_imports(rec, c, viol):
    return viol == "EmittedParses" and rec["id"].endswith("|1")


def modes_agree(ctx, known, quick):
    cs = cases(ctx, quick)
    lines, contents = run_modes(ctx, cs)
    return judge(ctx, lines, contents, {"ModesAgree"}, known, {"crlf-diff": kf_crlf})


def emitted_parses(ctx, known, quick):
    cs = cases(ctx, quick)
    lines, contents = run_modes(ctx, cs)
    return judge(ctx, lines, contents, {"EmittedParses", "FailureReported"}, known, {})


def unmatched_identity(ctx, known, quick):
    """C06 (library half): for a file no change matches the API returns the input bytes themselves."""
    cs = []
    for i, c in enumerate(fr.CONTENT["nomatch"] + ["package a\r\n\r\n// crlf only in comments\r\nfunc f() {}\r\n", "package a\n\nfunc f() {\r\n\tbaz()\n}\n"]):
        cs.append(dict(id="unmatched-%d" % i, patch=fr.PATCH, src=c, api_out=None, api_err=None))
    for v in frw.text_vectors(ctx, "corpus/nearmiss/vectors.json", "C06")[:0]:
        pass
    lines, contents = run_modes(ctx, cs)
    return judge(ctx, lines, contents, {"UnmatchedApiIdentity"}, known, {})
