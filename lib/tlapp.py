#!/usr/bin/env python3
"""Pretty-print TLA+ term records (as printed by TLC) or JSON terms as Go-ish text."""
import json, re, sys

def show(t):
    k = t["k"]; s = t["s"]
    if k == "@meta": return "$" + s[0]["a"]
    if k == "@dots": return "..." + s[0]["a"]
    if k == "Ident": return s[1]["a"]
    if k == "BasicLit": return s[2]["a"]
    parts = []
    for sl in s:
        if sl["t"] == "a": parts.append(sl["a"])
        elif sl["t"] == "z": parts.append("nil")
        elif sl["t"] == "n": parts.append(show(sl["v"][0]))
        else: parts.append("[" + ", ".join(show(e) for e in sl["v"]) + "]")
    return k + "(" + " ".join(parts) + ")"

def tla_to_json(txt):
    # [a |-> b, ...] -> {"a": b}, <<..>> -> [..]
    txt = txt.replace("<<", "[").replace(">>", "]")
    txt = re.sub(r'\[(\s*)([A-Za-z_]+) \|->', r'{\1"\2":', txt)
    txt = re.sub(r',(\s*)([A-Za-z_]+) \|->', r',\1"\2":', txt)
    # closing: records end with ] but so do sequences; track with a stack
    out = []; stack = []
    for ch in txt:
        if ch == '{': stack.append('}'); out.append(ch)
        elif ch == '[': stack.append(']'); out.append(ch)
        elif ch == ']': out.append(stack.pop())
        else: out.append(ch)
    return "".join(out)

if __name__ == "__main__":
    data = sys.stdin.read()
    for name in sys.argv[1:]:
        m = re.search(r'%s \|-> ' % name, data)
        if not m: continue
        i = m.end(); depth = 0; j = i
        while j < len(data):
            if data[j] in '[<' : depth += 1 if data[j]=='[' or data[j:j+2]=='<<' else 0
            if data[j] == ']' or data[j:j+2] == '>>': depth -= 1
            j += 1
            if depth == 0 and j > i+1: break
        # fallback crude approach handled by caller
