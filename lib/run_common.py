import fam_run as fr
from vlib import load_known


def json_key(sc):
    import json
    return json.dumps(sc, sort_keys=True)


def coverage(ctx, results, st, rule, extra=None):
    mc = [r for r in ctx.tlc_runs if r["name"] == "mc-pipeline"][0]
    r0 = results[0]
    cov = dict(states=mc["distinct"], transitions=mc["states"], traces_validated_against_impl=st["runs"],
               samples=[dict(id=r[0]["id"], scenario=r[0]["meta"]["sc"], observed=r[1], violated_predicates=r[2]["viol"]) for r in (results[0], results[-1])],
               evaluations=st["runs"], distinct_nontrivial=len({json_key(r[0]["meta"]["sc"]) for r in results}),
               model_drift_runs=st["drift"], model_drift_by_fault_and_kinds=st.get("drift_by", {}), trace_rejected_runs=st["stuck"], rule=rule)
    cov.update(extra or {})
    return cov


def pick(ctx, scs, n):
    if n is None or len(scs) <= n:
        return scs
    return [scs[i] for i in sorted(ctx.rng.sample(range(len(scs)), n))]

