"""Shared runner machinery for /verif/check.

Exit codes: 0 property held on everything explored (known findings are
printed, not failed), 1 at least one unlisted violation (VIOLATION lines),
2 infrastructure problem (never a verdict).
"""
import atexit, json, os, random, re, shutil, subprocess, sys, time, hashlib, concurrent.futures

VERIF = os.path.dirname(os.path.dirname(os.path.abspath(__file__)))
REPO = os.environ.get("VERIF_REPO", "/repo")
# "corrupt": ./check --selftest - one field of one recorded observation is falsified before TLC sees it; the
# check must then report a violation (demonstrates that the verdicts come from the recorded executions)
SELFTEST = os.environ.get("VERIF_SELFTEST", "")
SPEC = os.path.join(VERIF, "spec")
HARNESS = os.path.join(VERIF, "harness")
NCPU = os.cpu_count() or 4

GOENV = dict(os.environ, GOFLAGS="-mod=mod", GOPROXY="off", GOSUMDB="off", GOTOOLCHAIN="local",
             CGO_ENABLED="0")


import threading
_BUILD_LOCK = threading.Lock()


class Infra(Exception):
    """Infrastructure failure: exit 2, never a verdict."""


def die_infra(msg):
    print("INFRA: " + msg, flush=True)
    sys.exit(2)


class Ctx:
    """Per-run context: work directory, seed, tier, timing, evidence."""

    def __init__(self, prop, tier, seed):
        self.prop, self.tier, self.seed = prop, tier, seed
        self.t0 = time.time()
        self.rng = random.Random(seed)
        self.work = os.path.join(VERIF, ".work", "%s-%s-%d" % (prop, tier, os.getpid()))
        # scratch directories of runs that were killed (their process is gone) are removed here
        try:
            for d in os.listdir(os.path.join(VERIF, ".work")):
                pid = d.rsplit("-", 1)[-1]
                if pid.isdigit() and not os.path.exists("/proc/" + pid):
                    shutil.rmtree(os.path.join(VERIF, ".work", d), ignore_errors=True)
        except OSError:
            pass
        shutil.rmtree(self.work, ignore_errors=True)
        os.makedirs(self.work)
        if not os.environ.get("VERIF_KEEP"):
            atexit.register(lambda: shutil.rmtree(self.work, ignore_errors=True))
        self.outdir = os.environ.get("VERIF_OUT", VERIF)   # evidence/ and replays/ of a run against a scratch copy go elsewhere
        self.replays = os.path.join(self.outdir, "replays", prop)
        os.makedirs(self.replays, exist_ok=True)
        self.violations = []     # (what, replay path)
        self.known_hits = {}     # key -> [count, example]
        self.tlc_runs = []       # dicts with states / transitions per TLC invocation
        self.notes = []
        self.vh = None
        self.cli = None

    def path(self, *p):
        d = os.path.join(self.work, *p)
        os.makedirs(os.path.dirname(d), exist_ok=True)
        return d

    # ------------------------------------------------------------ builds --
    def build_harness(self):
        with _BUILD_LOCK:
            return self._build_harness()

    def _build_harness(self):
        if self.vh:
            return self.vh
        out = self.path("bin", "vh")
        gosum = os.path.join(HARNESS, "go.sum")
        # several checks may run at once: replace go.sum atomically, and only when it differs
        want = open(os.path.join(REPO, "go.sum"), "rb").read()
        if not os.path.exists(gosum) or open(gosum, "rb").read() != want:
            tmp = "%s.%d.tmp" % (gosum, os.getpid())
            with open(tmp, "wb") as f:
                f.write(want)
            os.replace(tmp, gosum)
        env = dict(GOENV)
        modfile = None
        if REPO != "/repo":
            # point the replace directive at the scratch copy
            modfile = self.path("harness.mod")
            txt = open(os.path.join(HARNESS, "go.mod")).read().replace("=> /repo", "=> " + REPO)
            open(modfile, "w").write(txt)
            shutil.copyfile(gosum, modfile[:-4] + ".sum")
        cmd = ["go", "build", "-tags", "verif", "-o", out]
        if modfile:
            cmd += ["-modfile", modfile]
        cmd += ["."]
        r = subprocess.run(cmd, cwd=HARNESS, env=env, capture_output=True, text=True)
        if r.returncode != 0:
            raise Infra("harness build failed (does /repo still compile?):\n" + r.stderr[-3000:])
        self.vh = out
        return out

    def build_cli(self, tags="verif"):
        with _BUILD_LOCK:
            return self._build_cli(tags)

    def _build_cli(self, tags="verif"):
        if self.cli:
            return self.cli
        out = self.path("bin", "gopatch")
        r = subprocess.run(["go", "build", "-tags", tags, "-o", out, "."], cwd=REPO, env=GOENV,
                           capture_output=True, text=True)
        if r.returncode != 0:
            raise Infra("gopatch build failed:\n" + r.stderr[-3000:])
        self.cli = out
        return out

    def run_vh(self, args, timeout=1800, check=True, stdin=None):
        vh = self.build_harness()
        r = subprocess.run([vh] + args, capture_output=True, text=True, timeout=timeout, input=stdin, env=GOENV)
        if check and r.returncode != 0:
            raise Infra("vh %s failed (%d): %s" % (" ".join(args[:3]), r.returncode, r.stderr[-3000:]))
        return r

    # --------------------------------------------------------------- TLC --
    def tlc(self, module, cfg, name, workers=1, timeout=1800, extra=None, simulate=None, allow_violation=False):
        """Run TLC on spec/<module>.tla with the given cfg text in a scratch copy.

        Returns dict(ok, states, distinct, violated, out, wall)."""
        d = self.path("tlc", name, "x")[:-2]
        for f in os.listdir(SPEC):
            if f.endswith(".tla"):
                shutil.copyfile(os.path.join(SPEC, f), os.path.join(d, f))
        open(os.path.join(d, module + ".cfg"), "w").write(cfg)
        cmd = ["timeout", str(timeout), "tlc", "-workers", str(workers), "-metadir", os.path.join(d, "meta"),
               "-config", module + ".cfg"]
        if simulate:
            cmd += ["-simulate", simulate]
        if extra:
            cmd += extra
        cmd += [module + ".tla"]
        t0 = time.time()
        env = dict(os.environ)
        # bound the heap: up to 16 trace-validation JVMs run side by side (the JVM default is 25% of RAM each)
        env.setdefault("JAVA_TOOL_OPTIONS", "-Xss256m -Xmx3g" if workers == 1 else "-Xss256m -Xmx12g")
        r = subprocess.run(cmd, cwd=d, capture_output=True, text=True, env=env)
        out = r.stdout + r.stderr
        res = dict(name=name, module=module, wall=round(time.time() - t0, 2), out=out, rc=r.returncode,
                   states=0, distinct=0, violated=None, ok=False)
        m = re.findall(r"(\d[\d,]*) states generated, (\d[\d,]*) distinct states found", out)
        if m:
            res["states"] = int(m[-1][0].replace(",", ""))
            res["distinct"] = int(m[-1][1].replace(",", ""))
        mv = re.search(r"Invariant (\w+) is violated|Action property (\w+) is violated|Temporal properties were violated", out)
        if mv:
            res["violated"] = mv.group(1) or mv.group(2) or "temporal"
        if "Model checking completed. No error has been found." in out or \
           (simulate and r.returncode in (0, 124) and "Error:" not in out):
            res["ok"] = True
        if r.returncode == 124 and not simulate:
            raise Infra("TLC timed out on %s (%ss)" % (name, timeout))
        if not res["ok"] and not (allow_violation and res["violated"]):
            tail = "\n".join(l for l in out.splitlines() if not re.match(r"^(Semantic|Linting|Parsing|Warning)", l))[-4000:]
            raise Infra("TLC failed on %s:\n%s" % (name, tail))
        self.tlc_runs.append({k: res[k] for k in ("name", "module", "states", "distinct", "wall")})
        shutil.rmtree(os.path.join(d, "meta"), ignore_errors=True)
        return res

    # ----------------------------------------------------------- verdicts --
    def violation(self, what, replay_obj):
        h = hashlib.sha1(json.dumps(replay_obj, sort_keys=True).encode()).hexdigest()[:12]
        p = os.path.join(self.replays, "%s-%s.json" % (self.prop, h))
        with open(p, "w") as f:
            json.dump(replay_obj, f, indent=1)
        self.violations.append((what, p))

    def known(self, key, what, example):
        e = self.known_hits.setdefault(key, [0, what, example])
        e[0] += 1

    # ----------------------------------------------------------- evidence --
    def finish(self, level, coverage, assumptions):
        ev = {
            "property_id": self.prop, "tier": self.tier, "seed": self.seed, "level": level,
            "coverage": coverage, "assumptions": assumptions,
            "wall_s": round(time.time() - self.t0, 2), "violations": len(self.violations),
        }
        coverage.setdefault("tlc_runs", self.tlc_runs)
        coverage.setdefault("known_findings_hit", {k: v[0] for k, v in self.known_hits.items()})
        if self.notes:
            coverage.setdefault("notes", self.notes)
        os.makedirs(os.path.join(self.outdir, "evidence"), exist_ok=True)
        with open(os.path.join(self.outdir, "evidence", self.prop + ".json"), "w") as f:
            json.dump(ev, f, indent=1)
        for key, (n, what, ex) in sorted(self.known_hits.items()):
            print("KNOWN-FINDING: property=%s %s [%s, %d case(s), e.g. %s]" % (self.prop, what, key, n, ex), flush=True)
        for what, p in self.violations[:50]:
            print("VIOLATION property=%s replay=%s  (%s)" % (self.prop, p, what), flush=True)
        if len(self.violations) > 50:
            print("... %d more violations" % (len(self.violations) - 50))
        print("%s %s: %s in %.1fs (seed %d)" % (self.prop, self.tier,
              "VIOLATED" if self.violations else "ok", time.time() - self.t0, self.seed), flush=True)
        return 1 if self.violations else 0


def load_known(prop):
    """known_findings.jsonl entries with status 'known' for this property: key -> what."""
    out = {}
    p = os.path.join(VERIF, "known_findings.jsonl")
    if os.path.exists(p):
        for line in open(p):
            line = line.strip()
            if not line:
                continue
            e = json.loads(line)
            if e.get("status") == "known" and e.get("property") == prop:
                out[e["key"]] = e["what"]
    return out


def read_ndjson(p):
    out = []
    with open(p) as f:
        for line in f:
            line = line.strip()
            if line:
                out.append(json.loads(line))
    return out


def write_ndjson(p, recs):
    with open(p, "w") as f:
        for r in recs:
            f.write(json.dumps(r, separators=(",", ":")) + "\n")


def pmap(fn, items, workers=None):
    workers = workers or NCPU
    with concurrent.futures.ThreadPoolExecutor(max_workers=workers) as ex:
        return list(ex.map(fn, items))


def show_term(t):
    k, s = t["k"], t["s"]
    if k == "@meta":
        return "$" + s[0]["a"]
    if k == "@dots":
        return "..." + s[0]["a"]
    if k == "Ident":
        return s[1]["a"]
    if k == "BasicLit":
        return s[2]["a"]
    parts = []
    for sl in s:
        if sl["t"] == "a":
            parts.append(sl["a"])
        elif sl["t"] == "z":
            parts.append("nil")
        elif sl["t"] == "n":
            parts.append(show_term(sl["v"][0]))
        else:
            parts.append("[" + ", ".join(show_term(e) for e in sl["v"]) + "]")
    return k + "(" + " ".join(parts) + ")"
