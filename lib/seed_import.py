#!/usr/bin/env python3
"""Copies sub-agent deliverables (/tmp/mut/out/Cxx/changeN) into /verif/seeded/Cxx-N, with the
patch rebased onto /repo's current HEAD (3-way), and writes meta.json skeletons."""
import json, os, re, shutil, subprocess, sys, tempfile
SRC, DST = (sys.argv[1] if len(sys.argv) > 1 else "/tmp/mut/out"), "/verif/seeded"
OFFSET = int(sys.argv[2]) if len(sys.argv) > 2 else 0     # wave 2: change1 -> -3, change2 -> -4
head = subprocess.run(["git", "-C", "/repo", "rev-parse", "--short", "HEAD"], capture_output=True, text=True).stdout.strip()
for prop in sorted(os.listdir(SRC)):
    for ch in ("change1", "change2"):
        d = os.path.join(SRC, prop, ch)
        if not all(os.path.exists(os.path.join(d, x)) for x in ("patch.diff", "NOTES.md", "demo/RUN.txt")):
            continue
        out = os.path.join(DST, "%s-%d" % (prop, int(ch[-1]) + OFFSET))
        os.makedirs(out, exist_ok=True)
        w = tempfile.mkdtemp(prefix="seedimp.", dir="/tmp")
        os.rmdir(w)
        subprocess.run(["git", "-C", "/repo", "worktree", "add", "--detach", w, "HEAD"], capture_output=True)
        try:
            r = subprocess.run(["git", "apply", os.path.join(d, "patch.diff")], cwd=w, capture_output=True, text=True)
            how = "applies"
            if r.returncode != 0:
                r = subprocess.run(["git", "apply", "--3way", os.path.join(d, "patch.diff")], cwd=w, capture_output=True, text=True)
                how = "rebased (3-way)"
                if r.returncode != 0:
                    manual = os.path.join(out, "patch.diff")
                    if os.path.exists(manual):
                        print(prop, ch, "keeps the manually rebased patch")
                        how = "rebased by hand"
                    else:
                        print(prop, ch, "DOES NOT APPLY - rebase by hand")
                        shutil.copy(os.path.join(d, "patch.diff"), os.path.join(out, "patch.orig.diff"))
                    continue
            subprocess.run(["git", "add", "-A", "-N"], cwd=w, capture_output=True)      # files the change adds are part of it
            diff = subprocess.run(["git", "diff", "HEAD"], cwd=w, capture_output=True, text=True).stdout
            open(os.path.join(out, "patch.diff"), "w").write(diff)
        finally:
            subprocess.run(["git", "-C", "/repo", "worktree", "remove", "--force", w], capture_output=True)
        if os.path.exists(os.path.join(out, "demo")):
            shutil.rmtree(os.path.join(out, "demo"))
        shutil.copytree(os.path.join(d, "demo"), os.path.join(out, "demo"))
        if os.path.exists(os.path.join(d, "NOTES.md")):
            shutil.copy(os.path.join(d, "NOTES.md"), os.path.join(out, "NOTES.md"))
        mp = os.path.join(out, "meta.json")
        meta = json.load(open(mp)) if os.path.exists(mp) else {}
        meta.update(dict(id="%s-%d" % (prop, int(ch[-1]) + OFFSET), breaks_property=prop, source="independent sub-agent given only the property text and a scratch worktree",
                         patch_state="%s at /repo %s" % (how, head)))
        meta.setdefault("needs_to_manifest", "")
        meta.setdefault("confirmed", {})
        meta.setdefault("checks", {})
        json.dump(meta, open(mp, "w"), indent=1)
print("done")
