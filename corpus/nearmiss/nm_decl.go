package nm

type A = B
type A2 B
type (
	G1 struct{ x int }
)
type G2 struct{ x int }
type G3 struct {
	x int
	y int
}
type G4 struct{ x, y int }
type G5 struct {
	x int `tag`
}
type I1 interface{ M() }
type I2 interface{ M(int) }
type C1 chan int
type C2 <-chan int
type C3 chan<- int
type F1 func(int) error
type F2 func(int, ...int) error
type F3 func(a int) (err error)
type P1[T any] struct{ x T }
type P2[T comparable] struct{ x T }

const K1 = 1
const K2 int = 1
const (
	K3 = 1
)
const (
	K4 = iota
	K5
)

var V1 = 1
var V2 int
var V3, V4 = 1, 2
var (
	V5 = 1
)

func D1()                  {}
func D2(a int)             {}
func D3(a int) error       { return nil }
func D4(a, b int) error    { return nil }
func D5(a int, b int) error { return nil }
func D6(a ...int) error    { return nil }
func D7(a int) (err error) { return nil }
func (r R) D8(a int) error  { return nil }
func (r *R) D9(a int) error { return nil }
func (R) D10(a int) error   { return nil }
func D11[T any](a T) error  { return nil }

func body() {
	type L = B
	type L2 B
	const k = 1
	var v = 1
	var w int
}
