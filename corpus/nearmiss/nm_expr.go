package nm

import "time"

type T struct{ a, b int }

func exprs(a, b int, xs []int, c chan int, p *int) {
	// operator
	_ = a + b
	_ = a - b
	_ = a * b
	_ = a | b
	_ = (a + b)
	// literal
	_ = foo(1)
	_ = foo(2)
	_ = foo(1.0)
	_ = foo("1")
	_ = foo('1')
	_ = foo(0x1)
	// name
	_ = foo(a)
	_ = fooo(a)
	_ = Foo(a)
	_ = pkg.foo(a)
	_ = foo.foo(a)
	// argument count
	_ = foo()
	_ = foo(a, b)
	_ = foo(a, b, a)
	_ = foo(a, (b))
	// variadic
	_ = foo(xs...)
	_ = foo(xs)
	_ = foo(a, xs...)
	// unary / star / addr
	_ = -a
	_ = +a
	_ = !ok
	_ = ^a
	_ = *p
	_ = &a
	_ = <-c
	// selector / index / slice
	_ = t.a
	_ = t.b
	_ = u.a
	_ = t.a.a
	_ = xs[a]
	_ = xs[b]
	_ = xs[a:b]
	_ = xs[a:]
	_ = xs[:b]
	_ = xs[a:b:b]
	_ = xs[a:b:a]
	_ = m[a][b]
	// composite / keyed
	_ = T{a, b}
	_ = T{a: a, b: b}
	_ = T{a: a}
	_ = &T{a, b}
	_ = []int{a, b}
	_ = [2]int{a, b}
	_ = [...]int{a, b}
	_ = map[int]int{a: b}
	// type assertion / conversion
	_ = e.(int)
	_ = e.(T)
	_ = e.(*T)
	_ = int(a)
	_ = int64(a)
	// func literal
	_ = func() {}
	_ = func(a int) {}
	_ = func() int { return a }
	// generic instantiation
	_ = gen[int](a)
	_ = gen[int, int](a)
	_ = gen[T](a)
	// channel types in expressions
	_ = make(chan int)
	_ = make(<-chan int)
	_ = make(chan<- int)
	_ = make(chan int, a)
	// calls nested at depth
	_ = foo(foo(a))
	_ = bar(foo(a), foo(b))
	_ = time.Now().Sub(a)
	_ = time.Since(a)
	_ = time.Now().Add(a)
	_ = clock.Now().Sub(a)
	// a sign in front of a literal
	_ = -1 * a
	_ = 1 * a
	_ = +1 * b
	_ = scale(a, -1, b)
	_ = scale(a, 1, b)
	// instantiations with several type arguments
	_ = gen[Pair[int, string]](a)
	_ = gen[List[int]](a)
	_ = use(conv[int, string])
	_ = must(parse[int, error](a))
}
