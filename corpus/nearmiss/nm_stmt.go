package nm

func stmts(a, b int, c chan int, mu *M) (err error) {
	mu.Lock()
	defer mu.Unlock()
	mu.Lock()
	mu.Unlock()
	mu.RLock()
	defer mu.RUnlock()
	x := a
	x = a
	var y = a
	x, y = a, b
	x += a
	x -= a
	x++
	x--
	c <- a
	c <- b
	go work(a)
	defer work(a)
	work(a)
	if err != nil {
		return err
	}
	if err == nil {
		return err
	}
	if err != nil {
		return nil
	}
	if err := do(); err != nil {
		return err
	}
	if err != nil {
		return err
	} else {
		x++
	}
	for i := 0; i < a; i++ {
		work(i)
	}
	for i := range a {
		work(i)
	}
	for {
		work(a)
	}
	for a < b {
		work(a)
	}
	for _, v := range xs {
		work(v)
	}
	switch a {
	case 1:
		err = do()
		if err != nil {
			return err
		}
	case 2, 3:
		work(a)
		fallthrough
	default:
		break
	}
	select {
	case v := <-c:
		err = do()
		if err != nil {
			return err
		}
		work(v)
	case c <- a:
	}
L:
	for {
		break L
	}
	goto L
	return nil
}
