//go:build !ignore_me

// Package rich has a lot of surrounding syntax around the small alphabet
// (a, b, f, g, h, m) used by the TLC-generated patterns.
package rich

import (
	"fmt"
	"strings"
)

//go:generate echo hello

// T is generic.
type T[K comparable, V any] struct {
	key K `json:"key,omitempty" yaml:"key"`
	val V `json:"val"`
	m   map[K][]V
	ch  <-chan V
	out chan<- K
	fn  func(K, ...V) (V, error)
}

type (
	// Alias is an alias.
	Alias = T[string, int]
	Named T[string, int]
	Iface interface {
		~int | ~string
		M(a int) (b int)
	}
)

const raw = `raw "string" with \n and
newline`

var (
	x, y = 1, 2
	z    = f(a)
)

func (t *T[K, V]) Get(k K) (v V, ok bool) {
	v, ok = t.m[k][0], true
	return
}

func use(a, b int, rest ...string) (n int, err error) {
outer:
	for i := 0; i < 10; i++ {
		switch {
		case f(a) > 1:
			continue outer
		case f(a, b) == g(a):
			break outer
		default:
			n += a + 1
		}
	}
	defer func() {
		if r := recover(); r != nil {
			fmt.Println(strings.ToUpper(raw), r)
		}
	}()
	go f(a)
	cl := func(p int) int { return f(p) + a + b }
	arr := [...]int{f(a), f(b), 3}
	mm := map[string][]int{"k": {a, b, f(1)}}
	sl := arr[a:b:10]
	var e any = sl
	switch v := e.(type) {
	case []int:
		n = len(v) + f(a, 1)
	case nil:
	}
	select {
	case m := <-ch():
		n = m.m + a.m
	case out() <- f(a):
	default:
	}
	if q, ok := e.([]int); ok && f(f(a)) > 0 {
		_ = q
	} else if a+b > f(1, 1) {
		n++
	}
	n = cl(a+1) + mm["k"][0] + *ptr(&n) + -a + (a + a)
	return n, fmt.Errorf("%d: %w", f(a), err)
}

func ch() chan struct{ m int } { return nil }
func out() chan<- int            { return nil }
func ptr(p *int) *int            { return p }
