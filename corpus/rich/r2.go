package rich

// doc comment for f
func f(args ...int) int { // trailing comment
	/* block comment */
	return len(args) // count
}

func g(a int) int { return a }

func h(xs ...int) int { return f(xs...) }

type S struct {
	a, b int
	f    func(int) int
}

func (s S) m() int {
	s.a = f(s.a)
	s.b = s.f(a)
	for k, v := range []int{a, b} {
		_ = f(k, v)
	}
	for range 3 {
		f()
	}
	func() {
		f(a)
		{
			f(a, a)
		}
	}()
	var w = struct{ f int }{f: f(a)}
	return w.f + a.m + f(a).m + f(a + b)
}

func variadic(b ...int) { f(b...); f(a, b...) }

func lit() {
	_ = f(1)
	_ = f(0x1)
	_ = f(1.0)
	_ = f('1')
	_ = f("1")
	_ = a + 1
	_ = a - 1
	_ = 1 + a
	_ = (a) + 1
}
