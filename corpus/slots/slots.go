package sl

type a struct {
	a int
	b a
}

const a = 1

var a = a

func a() {}

func (a a) m(a a, q ...a) (a a) {
a:
	for {
		goto a
		break a
		continue a
	}
	go a()
	defer a()
	a()
	go a(a)
	defer a(a)
	_ = q.a
	_ = a.q
	_ = a.a
	_ = T{a: a}
	_ = a
	a := a
	a, ok := <-a
	type a int
	type b = a
	switch a := a.(type) {
	case a:
	}
	func(a int) {}(a)
	for a := range a {
	}
	return a
}

type I interface {
	a()
	a
}

func g[a any](x a) {}
