package inter

// Subject for interaction vectors: labels, several elisions with repeated
// metavariables, adjacent elisions, optional tokens inside bindings,
// parenthesised bindings.

type T struct{ val int }

func labels(rows [][]int, ch chan int) {
rows:
	for i := 0; i < len(rows); i++ {
		work(i)
		if i > 3 {
			continue rows
		}
	}
scan:
	for _, r := range rows {
		work(r)
		for range r {
			work(r)
			break scan
		}
	}
	for j := 0; j < 2; j++ {
		work(j)
	}
blk:
	{
		work(0)
		break blk
	}
sw:
	switch {
	case len(rows) > 0:
		work(1)
		break sw
	}
sel:
	select {
	case v := <-ch:
		work(v)
		break sel
	}
	goto rows
}

func multi(a, b, c, d int) {
	pair(a, b, c, b)
	pair(a, a)
	pair(a, b, b)
	pair(a, b, c, d)
	pair(b)
	tri(1, 2, 3, 2)
	tri(1, 2, 1, 2, 1)
	tri(7, 1, 8, 2, 9, 1)
	tri(1, 2, 3)
	foo()
	foo(42)
	foo(1, 42)
	foo(1, 2, 42)
	foo(42, 1)
}

func locks(a, b *mu) {
	a.Lock()
	b.Lock()
	work(1)
	b.Unlock()
}

func opens() {
	p := open()
	q := open()
	use(q)
}

func opens2() {
	p := open()
	use(p)
	q := open()
	use(q)
}

func lead() {
	first()
	foo()
	last()
}

func lead2() {
	foo()
}

func optional(xs []int) {
	both(sum(xs...), sum(xs))
	both(sum(xs...), sum(xs...))
	both(sum(xs), sum(xs))
	both(func() { type L = int }, func() { type L int })
	both(func() { type L = int }, func() { type L = int })
	both(func() { var (
		v = 1
	) }, func() { var v = 1 })
	both(make(chan<- int), make(chan int))
	both(make(chan<- int), make(chan<- int))
	// identifiers spelled like the metavariables of the vectors (x, y, i): ordinary names here
	both(x.a, y.a)
	both(x.a, x.a)
	both(x+1, y+1)
	both(m[x], m[i])
	both(g(x), g(x))
}

func parens(a, b int) {
	both((a + b), (a + b))
	both((a), (a))
	both((a), a)
	both(((a)), (a))
	if valueOf((T{1})) == 1 {
	}
	if (valueOf(T{1})) == 1 {
	}
	_ = valueOf((*(&a)))
	_ = neg(-(a))
	_ = neg((-a))
}

func loops(xs []int, m map[string]int, n int) {
	if n > 0 {
		for i := 0; i < 10; i++ {
			work(i)
		}
	}
	if n > 1 {
		for j := n; j > 0; j-- {
			work(j)
		}
	}
	func() {
		for k := 1; k < n; k *= 2 {
			work(k)
		}
	}()
	if n > 2 {
		for _, x := range xs {
			work(x)
		}
	}
	if n > 3 {
		for k := range m {
			work(k)
		}
	}
	func() {
		for k, v := range m {
			work(v)
			_ = k
		}
	}()
	for n > 0 {
		work(n)
	}
}

func branches(h func(func()) interface{ Serve() }, c io.Closer) {
	h(func() {
		for {
			break
		}
	}).Serve()
	h(func() {
		for i := 0; i < 3; i++ {
			if i == 1 {
				continue
			}
		}
		switch {
		case true:
			fallthrough
		default:
		}
	}).Serve()
	c.Close()
}

func moves(a, b int, h func(int) int) {
	rot(1, 2, 3)
	rot(a)
	rot(h(1), h(2), b)
	rot(a, rot(1, 2, b), b)
	_ = []int{1, 2, a}
	_ = T{1, 2, a}
	shift(1, 2, 3, 4)
}

func nestedBare(ch chan int) {
	enter(1)
	defer exit(1)
	{
		enter(1)
		defer exit(1)
		inner1()
	}
	keep1()
	keep2()
	select {
	case v := <-ch:
		enter(v)
		defer exit(v)
		keep0(v)
		{
			enter(v)
			defer exit(v)
			inner2()
		}
		keep3()
		keep4()
	}
}

func nestedInsert() {
	keep0()
	acquire()
	keep1()
	{
		acquire()
		inner1()
	}
	keep2()
	keep3()
}

func precedence(a, b int, p *int, q **int, s []int, t T) {
	_ = *load(p)
	_ = **loadpp(q)
	_ = -load(&a)
	_ = !ok(a)
	_ = <-recvOf(a)
	_ = &T{load(p)}
	_ = load(p).x
	_ = load(p)[0]
	_ = load(p)(1)
	_ = load(p).(int)
	_ = s[load(p):]
	_ = 2 * load(p)
	_ = b - load(p)
	_ = []int{load(p), -load(p)}
	deref(*load(p), b)
}

func threeLists() {
	foo(1, 2)
	bar(3)
	qux(4, 5, 6)
}

func manyLists(x func(int, func(int))) {
	a0(1)
	a1(1, 2)
	a2()
	a3(3)
	x = func(n int, f func(int)) {}
	a4(4)
	a5(5, 6)
	a6()
	a7(7)
	a8(8)
	old()
}

func job() {
	setup(1)
	setup(2)
	setup(3)
	setup(4)
	begin(a)
	step(1)
	step(2)
	step(3)
	step(4)
	end(b)
	begin(c)
	step(1)
	step(2)
	step(3)
	step(4)
	end(c)
}

func longArgs(a, b int) {
	check(101, 102, 103, 104, 105, 106, 107, 108, 109, 110, 111, 112, 113, 114, a, 1, 2, 3, 4, 5, 6, 7, 8, 9, 10, 11, 12, 13, 14, 15, 16, b, 1, 2, 3, 4, 5, 6, 7, 8, 9, 10, 11, 12, 13, 14, 15, 16, b, a, 1, 2, 3, 4, 5, 6, 7, 8, 9, 10, 11, 12, 13, 14, 15, 16, a)
}

func memoOne() {
	a := open()
	check(e1)
	a.Close()
}

func memoTwo() {
	a := open()
	b := open()
	check(e2)
	b.Close()
}

func memoArgs() {
	pair(7, 2, 9, nil, 2)
	pair(8, 1, 2, nil, 2)
	pick(a(), b(), 0, 1, use(b()))
	pick(a(), b(), 0, 1, use(c()))
	pick(a(), b(), 0, 1, use(a()))
	f3(1, 2, 3, 2)
	f3(1, 2, 3, 4)
}

func clauses(x int) {
	if x > 0 {
		switch x {
		default:
			foo()
		}
	}
	if x > 1 {
		switch x {
		case 1, 2:
			foo()
		}
	}
	if x > 2 {
		switch x {
		case 3:
			foo()
		default:
			foo()
		}
	}
}

func bareBranches(rows [][]int) {
outer:
	for _, r := range rows {
		for _, v := range r {
			if v < 0 {
				note(v)
				continue outer
			}
			if v == 0 {
				note(v)
				continue
			}
			if v > 9 {
				note(v)
				break outer
			}
			note(v)
			break
		}
	}
}
