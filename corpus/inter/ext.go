package inter_test

import "testing"

func TestOpen(t *testing.T) {
	s := open(t)
	s.close()
}
