package inter

func plain() {
	s := open(1)
	s.close()
}
