package a

func f() {
	g(a.b(c), 1+2)
}
