package a

var x1 = foo(1)

var x2 = foo(2)

var x3 = foo(3)

var x4 = foo(4)

var k = other(func() int {
	// why inside
	return 5 /* five */
}()) // trailing k

var x6 = foo(6)

var x7 = foo(7)

var x8 = foo(8)

var x9 = foo(9)

