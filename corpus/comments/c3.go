package a

var limit marker = value(10)

func serve(marker int) {
	keep(1)
	old(2)
	last(3)
}

type T struct {
	A int
	B []string
}

func other() int {
	return old(4)
}
