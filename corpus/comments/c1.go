// Copyright 2024 The Authors. All rights reserved.

//go:build linux || darwin

// Package subject is a comment-heavy test subject.
//
// It has a long package comment
// with several lines.
package subject

import (
	"errors" // why errors
	"fmt"
)

//go:generate echo hello

// ErrOops is returned on oops.
var ErrOops = errors.New("oops") // trailing ErrOops

// Config configures things.
type Config struct {
	// Name is the name.
	Name string // trailing Name

	/* Block comment field. */
	Size int
}

// free-standing comment between declarations

// Run runs.
//
//   - a list item
//   - another
func Run(c Config) error {
	// leading own-line comment
	old(c.Name) // after old
	if c.Size > 0 { // after brace
		anchor()
		drop()
	}
	fmt.Println( /* inline */ c.Name)
	return ErrOops
} // trailing Run

/*
Multi-line block comment
before Helper.
*/
func Helper(marker int) {
	keep() // in helper
}

// Last is last.
func Last() {} // trailing Last

// comment at the end of the file
