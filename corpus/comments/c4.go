package a

import (
	"fmt"
	// os is needed for Args.
	"os" // os trailing
)

// Run runs.
func Run() {
	fmt.Println(os.Args, os.Getenv("X"))
}

// Other uses os too.
func Other() string { // Other open
	return os.Getenv("Y") // Other eol
}
