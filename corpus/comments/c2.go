package subject // trailing package

// First is replaced sometimes.
func First(marker int) {
	old(1)
}

// Second stays.
func Second() { // opening
	keep()
	// closing
}

var (
	// a doc
	a = old(2) // a trail
	// b doc
	b = 2 // b trail
)

const marked marker = 1

// d doc
var d marker = 3 // d trail

// e doc
var e = 4
