package bad

type T foo

var x foo

var y = foo{1}

func f(a foo, b ...foo) (r foo) {
	var z foo = foo(1)
	m := map[foo]foo{}
	c := make(chan foo)
	switch v := any(z).(type) {
	case foo:
		_ = v
	}
	_ = []foo{z}
	_ = func(p foo) {}
	return m[z] + <-c
}
