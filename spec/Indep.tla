---- MODULE Indep ----
(***************************************************************************)
(* C14 (command half): the outcome for a file does not depend on which     *)
(* other files are processed in the same invocation, nor on the order of   *)
(* the arguments, nor on the run (determinism).                            *)
(*                                                                         *)
(* A run processes a sequence of files, each of a kind (the file kinds of  *)
(* Pipeline.tla), given in some argument order, in one of three modes.     *)
(* The outcome of a file is what can be observed about it: the state of    *)
(* its bytes afterwards, the parts of stdout and the lines of stderr that  *)
(* belong to it.  P: the outcome of file i in the group = its outcome      *)
(* alone; the exit status is non-zero iff some file's solo run fails.      *)
(* The I-layer is Pipeline.tla's per-file loop, in which no state flows    *)
(* from one file to the next apart from the collected errors.              *)
(***************************************************************************)
EXTENDS Naturals, Sequences, FiniteSets, TLC, Json, SequencesExt, FiniteSetsExt

CONSTANTS FileKinds, MaxFiles, OutFile

Modes == {"write", "print", "diff"}
KindSeqs == UNION {[1..n -> FileKinds] : n \in 1..MaxFiles}
Perms(n) == {p \in [1..n -> 1..n] : \A i, j \in 1..n : i # j => p[i] # p[j]}
Runs == {[kinds |-> ks, order |-> p, mode |-> m] : ks \in {x \in KindSeqs : Len(x) >= 2}, p \in Perms(MaxFiles), m \in Modes}

\* emitted once; the argument order is a permutation of 1..MaxFiles restricted to the files present
Emit == ndJsonSerialize(OutFile, SetToSeq({[kinds |-> r.kinds, mode |-> r.mode,
                                             order |-> SelectSeq(r.order, LAMBDA i : i <= Len(r.kinds))] : r \in Runs}))

\* ------------------------------------------------------------- judgement --
\* rec: [solo |-> seq of outcomes, group |-> seq of outcomes, again |-> seq of outcomes,
\*       soloExit |-> seq, exit, exitAgain]
Violations(r) ==
  (IF \A i \in 1..Len(r.solo) : r.group[i] = r.solo[i] THEN {} ELSE {"SameAloneOrTogether"})
  \cup (IF r.again = r.group /\ r.exitAgain = r.exit THEN {} ELSE {"SameOnEveryRun"})
  \cup (IF (r.exit = 0) <=> (\A i \in 1..Len(r.soloExit) : r.soloExit[i] = 0) THEN {} ELSE {"ExitReflectsEveryFile"})

VARIABLE emitted
EmitInit == emitted = Emit
EmitSpec == EmitInit /\ [][UNCHANGED emitted]_emitted
====
