---- MODULE TraceSection ----
(***************************************************************************)
(* C19: judges what the real patch parser reported for each faulty patch.  *)
(* Record: the expected position (P-layer of Section.tla, computed when    *)
(* the vector was generated and recomputed here), whether the patch was    *)
(* rejected, and the (file, line, column) triples found in the diagnostic. *)
(***************************************************************************)
EXTENDS Section, Json, SequencesExt
CONSTANTS TraceFile, OutFile
Trace == ndJsonDeserialize(TraceFile)
VARIABLES l, verdicts
tvars == <<l, verdicts>>

Verdict(r) ==
  LET want == OffendingPos(r.changes, r.fault)
      named == {i \in 1..Len(r.diags) : r.diags[i].file = r.file}
  IN [id |-> r.id,
      viol |-> SetToSeq(
        (IF r.rejected = "1" THEN {} ELSE {"Rejected"})
        \cup (IF named # {} THEN {} ELSE {"NamesPatchFile"})
        \cup (IF \E i \in named : r.diags[i].line = want.line /\ r.diags[i].col = want.col THEN {} ELSE {"PointsAtOffendingToken"})),
      want |-> want]

TraceInit == l = 1 /\ verdicts = <<>> /\ patch = <<>> /\ fault = [c |-> 0, k |-> "", m |-> 0]
TraceNext == l <= Len(Trace) /\ l' = l + 1 /\ verdicts' = Append(verdicts, Verdict(Trace[l])) /\ UNCHANGED vars
TraceSpec == TraceInit /\ [][TraceNext]_<<vars, tvars>>
Flush == (l = Len(Trace) + 1) => ndJsonSerialize(OutFile, verdicts)
Accepted == TLCGet("stats").diameter - 1 = Len(Trace)
====
