---- MODULE TraceIndep ----
(* Judges recorded multi-file runs against their solo runs (C14, command half). *)
EXTENDS Indep
CONSTANTS TraceFile, VerdictFile
Trace == ndJsonDeserialize(TraceFile)
VARIABLES l, verdicts
TraceInit == l = 1 /\ verdicts = <<>> /\ emitted = TRUE
TraceNext == /\ l <= Len(Trace) /\ l' = l + 1 /\ UNCHANGED emitted
             /\ verdicts' = Append(verdicts, [id |-> Trace[l].id, viol |-> SetToSeq(Violations(Trace[l]))])
TraceSpec == TraceInit /\ [][TraceNext]_<<l, verdicts, emitted>>
Flush == (l = Len(Trace) + 1) => ndJsonSerialize(VerdictFile, verdicts)
Accepted == TLCGet("stats").diameter - 1 = Len(Trace)
====
