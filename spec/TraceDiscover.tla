---- MODULE TraceDiscover ----
(***************************************************************************)
(* Judges recorded runs of the real binary on materialised trees (C15).    *)
(* Each record: the tree, the argument list and what was observed: the     *)
(* files whose bytes changed, those changed more than once (a               *)
(* non-idempotent patch makes double processing visible), the files named  *)
(* by the -v lines in order, and anything else that was modified.          *)
(***************************************************************************)
EXTENDS Discover, Json

CONSTANTS TraceFile, OutFile
Trace == ndJsonDeserialize(TraceFile)

VARIABLES l, verdicts
tvars == <<l, verdicts>>

SeqSet(s) == {s[i] : i \in 1..Len(s)}
TreeOf(r) == [top |-> SeqSet(r.top), kids |-> [d \in DirNames |-> SeqSet(r.kids[d])]]
ArgsOfRec(r) == [i \in 1..Len(r.args) |-> [path |-> r.args[i].path, abs |-> r.args[i].abs = "1", dots |-> r.args[i].dots = "1", via |-> r.args[i].via]]

Verdict(r) ==
  LET t == TreeOf(r)
      a == ArgsOfRec(r)
      ref == RefSet(t, a)
      pred == IFiles(t, a, r.cwdvia)
  IN [id |-> r.id,
      ieq |-> IF r.obs.vlines = pred /\ SeqSet(r.obs.changed) = SeqSet(pred) THEN "1" ELSE "0",
      viol |-> SetToSeq(
         (IF SeqSet(r.obs.changed) = ref THEN {} ELSE {"ExactlyTheRequestedFiles"})
         \cup (IF r.obs.twice = <<>> /\ Len(r.obs.vlines) = Cardinality(SeqSet(r.obs.vlines)) THEN {} ELSE {"EachOnce"})
         \cup (IF SeqSet(r.obs.vlines) = ref /\ \A i, j \in 1..Len(r.obs.vlines) : i < j => ~PathLess(r.obs.vlines[j], r.obs.vlines[i])
               THEN {} ELSE {"FixedPathOrder"})
         \cup (IF r.obs.other = <<>> THEN {} ELSE {"NothingElse"})
         \cup (IF r.obs.exit = 0 THEN {} ELSE {"ExitZero"}))]

TraceInit == l = 1 /\ verdicts = <<>> /\ tree = [top |-> {}, kids |-> [d \in DirNames |-> {}]] /\ args = <<>> /\ cwdvia = "w"
TraceNext == l <= Len(Trace) /\ l' = l + 1 /\ verdicts' = Append(verdicts, Verdict(Trace[l])) /\ UNCHANGED vars
TraceSpec == TraceInit /\ [][TraceNext]_<<vars, tvars>>
Flush == (l = Len(Trace) + 1) => ndJsonSerialize(OutFile, verdicts)
Accepted == TLCGet("stats").diameter - 1 = Len(Trace)
====
