---- MODULE Splitter ----
(***************************************************************************)
(* C13 (first half): how a patch file is cut into changes, line by line.   *)
(*                                                                         *)
(* A file is a sequence of line kinds:                                     *)
(*   "c" comment (#...)   "b" blank   "h" change header (@@ or @ name @)    *)
(*   "m" metavariable declaration   "e" the @@ that ends the declarations   *)
(*   "p" a line of the patch body                                          *)
(*                                                                         *)
(* P-layer: comments never influence the structure; a change's description *)
(* is exactly the run of "c" lines directly above its header.              *)
(* I-layer: programSplitter (section.go): next() skips comment lines and   *)
(* remembers the ones seen since the last non-comment line; readChange     *)
(* takes them as the description; readMeta / readPatch collect lines.      *)
(***************************************************************************)
EXTENDS Naturals, Sequences, FiniteSets, TLC

CONSTANTS MaxLen

Kinds == {"c", "b", "h", "m", "e", "p"}
Files == UNION {[1..n -> Kinds] : n \in 1..MaxLen}

\* well-formed: (b|c)* then changes; change = h (m|c)* e (p|b|c)*   (body may be empty here;
\* an empty body is rejected later by the patch parser, not by the sectioner)
RECURSIVE WF(_, _, _)
WF(f, i, st) ==
  IF i > Len(f) THEN st = "body"
  ELSE LET k == f[i] IN
       CASE st = "top"  -> (k \in {"b", "c"} /\ WF(f, i + 1, "top")) \/ (k = "h" /\ WF(f, i + 1, "meta"))
         [] st = "meta" -> (k \in {"m", "c"} /\ WF(f, i + 1, "meta")) \/ (k = "e" /\ WF(f, i + 1, "body"))
         [] st = "body" -> (k \in {"p", "b", "c"} /\ WF(f, i + 1, "body")) \/ (k = "h" /\ WF(f, i + 1, "meta"))
GoodFiles == {f \in Files : WF(f, 1, "top")}

\* ------------------------------------------------------------- P-layer --
Headers(f) == {i \in 1..Len(f) : f[i] = "h"}
\* description: the maximal run of comment lines directly above header i
RECURSIVE DescFrom(_, _)
DescFrom(f, i) == IF i >= 1 /\ f[i] = "c" THEN DescFrom(f, i - 1) \o <<i>> ELSE <<>>
NextHeader(f, i) == IF \E j \in Headers(f) : j > i THEN CHOOSE j \in Headers(f) : j > i /\ \A k \in Headers(f) : k > i => j <= k
                    ELSE Len(f) + 1
EndMeta(f, i) == CHOOSE j \in (i + 1)..Len(f) : f[j] = "e" /\ \A k \in (i + 1)..(j - 1) : f[k] # "e"
PChange(f, i) ==
  [hdr |-> i,
   desc |-> DescFrom(f, i - 1),
   meta |-> SelectSeq([k \in 1..(EndMeta(f, i) - i - 1) |-> i + k], LAMBDA j : f[j] = "m"),
   body |-> SelectSeq([k \in 1..(NextHeader(f, i) - EndMeta(f, i) - 1) |-> EndMeta(f, i) + k], LAMBDA j : f[j] # "c")]
RECURSIVE PFrom(_, _)
PFrom(f, i) == IF i > Len(f) THEN <<>> ELSE <<PChange(f, i)>> \o PFrom(f, NextHeader(f, i))
PChanges(f) == IF Headers(f) = {} THEN <<>> ELSE PFrom(f, NextHeader(f, 0))

\* ------------------------------------------------------------- I-layer --
\* cursor machine: pos = index of the current (non-comment) line, or Len+1 at EOF;
\* last = comment lines skipped since the previous current line
VARIABLES file, pos, last, phase, cur, out
vars == <<file, pos, last, phase, cur, out>>

\* programSplitter.next(): advance to the next non-comment line, collecting comments
RECURSIVE Skip(_, _, _)
Skip(f, i, acc) == IF i <= Len(f) /\ f[i] = "c" THEN Skip(f, i + 1, Append(acc, i)) ELSE [pos |-> i, last |-> acc]
NextLine(f, i) == Skip(f, i + 1, <<>>)
Eof == pos > Len(file)

Init == /\ file \in GoodFiles
        /\ LET n == Skip(file, 1, <<>>) IN pos = n.pos /\ last = n.last
        /\ phase = "top" /\ cur = [hdr |-> 0, desc |-> <<>>, meta |-> <<>>, body |-> <<>>] /\ out = <<>>

Advance == LET n == NextLine(file, pos) IN pos' = n.pos /\ last' = n.last

\* readProgram: blank lines in front of a header are skipped
SkipBlank == phase = "top" /\ ~Eof /\ file[pos] = "b" /\ Advance /\ UNCHANGED <<file, phase, cur, out>>
\* readChange + readName
ReadHeader == /\ phase = "top" /\ ~Eof /\ file[pos] = "h"
              /\ cur' = [hdr |-> pos, desc |-> last, meta |-> <<>>, body |-> <<>>]
              /\ Advance /\ phase' = "meta" /\ UNCHANGED <<file, out>>
\* readMeta
ReadMeta == /\ phase = "meta" /\ ~Eof
            /\ IF file[pos] = "e" THEN phase' = "body" /\ UNCHANGED cur
               ELSE cur' = [cur EXCEPT !.meta = Append(@, pos)] /\ phase' = "meta"
            /\ Advance /\ UNCHANGED <<file, out>>
\* readPatch: until a line starting with '@' or EOF
ReadBody == /\ phase = "body"
            /\ IF Eof \/ file[pos] = "h"
               THEN out' = Append(out, cur) /\ phase' = (IF Eof THEN "done" ELSE "top") /\ UNCHANGED <<pos, last, cur>>
               ELSE cur' = [cur EXCEPT !.body = Append(@, pos)] /\ Advance /\ UNCHANGED <<phase, out>>
            /\ UNCHANGED file
Finish == phase = "top" /\ Eof /\ phase' = "done" /\ UNCHANGED <<file, pos, last, cur, out>>

Next == SkipBlank \/ ReadHeader \/ ReadMeta \/ ReadBody \/ Finish
Spec == Init /\ [][Next]_vars /\ WF_vars(Next)

DesignOK == phase = "done" => out = PChanges(file)
Terminates == <>(phase = "done")
====
