---- MODULE EmitConcurrent ----
(* Prints every complete interleaving of Concurrent.tla as one JSON line    *)
(* (the sequence of calls in the order they are released).  Run by TLC in   *)
(* exhaustive mode: the schedule is carried in `sched`, so every distinct   *)
(* interleaving is a distinct final state.                                  *)
EXTENDS Concurrent, Json
CONSTANTS OutFile
\* Evaluated as an invariant: a final state prints its schedule.
PrintDone == Done => PrintT(<<"SCHEDULE", [i \in 1..Len(sched) |-> sched[i][1]]>>)
====
