---- MODULE EmitSplitter ----
(* Writes the well-formed line-kind files of Splitter.tla for replay.      *)
EXTENDS Splitter, Json, SequencesExt
CONSTANTS OutFile
VARIABLE emitted
EmitInit == /\ emitted = ndJsonSerialize(OutFile, SetToSeq({[file |-> f] : f \in GoodFiles}))
            /\ file = <<>> /\ pos = 1 /\ last = <<>> /\ phase = "idle"
            /\ cur = [hdr |-> 0, desc |-> <<>>, meta |-> <<>>, body |-> <<>>] /\ out = <<>>
EmitSpec == EmitInit /\ [][UNCHANGED <<emitted, vars>>]_<<emitted, vars>>
====
