---- MODULE Finder ----
(***************************************************************************)
(* C08 (i): the token scanner of the pgo augmenter                         *)
(* (internal/pgo/augment/find.go) terminates on every token string.        *)
(*                                                                         *)
(* PlusCal transcription, one label per call of f.next() / loop head, one  *)
(* procedure per method of `finder`.  The cursor saturates at the end of   *)
(* the input exactly as go/scanner keeps returning EOF.  Token classes:    *)
(*   package import ( ) { } [ ] func decl (type|var|const) id . ... , ; str *)
(* All tokens are on one line; go/scanner adds a ";" at the end of the     *)
(* input after an identifier, a literal or a closing bracket (Eff).        *)
(***************************************************************************)
EXTENDS Naturals, Sequences, TLC

CONSTANTS Toks, MaxLen
IsIdent(t) == t = "id"

(* --fair algorithm finder
variables input \in UNION {[1..n -> Toks] : n \in 0..MaxLen}, i = 1, augs = <<>>;
define
  Eff == IF input # <<>> /\ input[Len(input)] \in {"id", "str", ")", "]", "}"} THEN Append(input, ";") ELSE input
  Tok(k) == IF k <= Len(Eff) THEN Eff[k] ELSE "EOF"
  Adv(k) == IF k <= Len(Eff) THEN k + 1 ELSE k
end define;

procedure process()
begin
PR0:  if IsIdent(Tok(i)) then
        call ident();
        return;
      elsif Tok(i) = "..." then
        call ellipsis();
        return;
      elsif Tok(i) = "func" then
        call function();
        return;
      else
PR1:    i := Adv(i);
        return;
      end if;
end procedure;

procedure ident()
begin
ID0:  i := Adv(i);
ID1:  if Tok(i) = "..." then i := Adv(i); end if;
ID2:  return;
end procedure;

procedure ellipsis()
begin
EL0:  i := Adv(i);
EL1:  if Tok(i) = "id" then          \* identifier on the same line: variadic, leave unchanged
        i := Adv(i);
      else
        augs := Append(augs, "dots");
      end if;
EL2:  return;
end procedure;

procedure funcDecl()
begin
FD0:  i := Adv(i);                   \* func
FD1:  if Tok(i) = "(" then
        i := Adv(i);
FD2:    while Tok(i) # ")" /\ Tok(i) # "EOF" do
          call process();
        end while;
FD3:    i := Adv(i);                 \* )
      end if;
FD4:  i := Adv(i);                   \* func name
FD5:  call fieldList();              \* params
FD6:  if Tok(i) = "(" then call fieldList(); end if;   \* results
FD7:  return;
end procedure;

procedure function()
begin
FN0:  i := Adv(i);                   \* func
FN1:  call fieldList();
FN2:  if Tok(i) = "(" then call fieldList(); end if;
FN3:  return;
end procedure;

procedure fieldList()
variables myEllipses = 0, myNamed = FALSE;
begin
FL0:  i := Adv(i);                   \* (
FL1:  while Tok(i) # ")" /\ Tok(i) # "EOF" do
        if Tok(i) = "func" then
          call function();
        elsif IsIdent(Tok(i)) then
          i := Adv(i);
FLa:      if Tok(i) = "." then
            i := Adv(i);
FLb:        i := Adv(i);
          end if;
FLc:      if Tok(i) # "," /\ Tok(i) # ")" then myNamed := TRUE; end if;
        elsif Tok(i) = "..." then
          i := Adv(i);
FLd:      if ~IsIdent(Tok(i)) then myEllipses := myEllipses + 1; end if;
        else
          i := Adv(i);
        end if;
      end while;
FL2:  i := Adv(i);                   \* )
FL3:  while myEllipses > 0 do
        augs := Append(augs, IF myNamed THEN "dots-named" ELSE "dots");
        myEllipses := myEllipses - 1;
      end while;
FL4:  return;
end procedure;

begin
\* pkg
PK0:  if Tok(i) # "package" then
        augs := Append(augs, "fakepkg");
      else
        i := Adv(i);
PK1:    i := Adv(i);
PK2:    i := Adv(i);
      end if;
\* imports
IM0:  while Tok(i) = "import" do
        i := Adv(i);
IM1:    if Tok(i) = "(" then
IM2:      while Tok(i) # ")" /\ Tok(i) # "EOF" do
            i := Adv(i);
          end while;
IM3:      i := Adv(i);
IM4:      i := Adv(i);
        elsif Tok(i) = "EOF" then
          goto TL0;
        else
          if Tok(i) = "." \/ IsIdent(Tok(i)) then i := Adv(i); end if;
IM5:      i := Adv(i);
IM6:      i := Adv(i);
        end if;
      end while;
\* topLevelDecl
TL0:  if Tok(i) = "decl" then
        i := Adv(i);
      elsif Tok(i) = "func" then
        call funcDecl();
      elsif Tok(i) = "{" then
        augs := Append(augs, "fakefunc");
        i := Adv(i);
      else
        augs := Append(augs, "fakefunc-braces");
      end if;
M1:   while Tok(i) # "EOF" do
        call process();
      end while;
end algorithm; *)
\* BEGIN TRANSLATION (chksum(pcal) = "7c28162a" /\ chksum(tla) = "f592cbe7")
VARIABLES pc, input, i, augs, stack

(* define statement *)
Eff == IF input # <<>> /\ input[Len(input)] \in {"id", "str", ")", "]", "}"} THEN Append(input, ";") ELSE input
Tok(k) == IF k <= Len(Eff) THEN Eff[k] ELSE "EOF"
Adv(k) == IF k <= Len(Eff) THEN k + 1 ELSE k

VARIABLES myEllipses, myNamed

vars == << pc, input, i, augs, stack, myEllipses, myNamed >>

Init == (* Global variables *)
        /\ input \in UNION {[1..n -> Toks] : n \in 0..MaxLen}
        /\ i = 1
        /\ augs = <<>>
        (* Procedure fieldList *)
        /\ myEllipses = 0
        /\ myNamed = FALSE
        /\ stack = << >>
        /\ pc = "PK0"

PR0 == /\ pc = "PR0"
       /\ IF IsIdent(Tok(i))
             THEN /\ stack' = << [ procedure |->  "ident",
                                   pc        |->  Head(stack).pc ] >>
                               \o Tail(stack)
                  /\ pc' = "ID0"
             ELSE /\ IF Tok(i) = "..."
                        THEN /\ stack' = << [ procedure |->  "ellipsis",
                                              pc        |->  Head(stack).pc ] >>
                                          \o Tail(stack)
                             /\ pc' = "EL0"
                        ELSE /\ IF Tok(i) = "func"
                                   THEN /\ stack' = << [ procedure |->  "function",
                                                         pc        |->  Head(stack).pc ] >>
                                                     \o Tail(stack)
                                        /\ pc' = "FN0"
                                   ELSE /\ pc' = "PR1"
                                        /\ stack' = stack
       /\ UNCHANGED << input, i, augs, myEllipses, myNamed >>

PR1 == /\ pc = "PR1"
       /\ i' = Adv(i)
       /\ pc' = Head(stack).pc
       /\ stack' = Tail(stack)
       /\ UNCHANGED << input, augs, myEllipses, myNamed >>

process == PR0 \/ PR1

ID0 == /\ pc = "ID0"
       /\ i' = Adv(i)
       /\ pc' = "ID1"
       /\ UNCHANGED << input, augs, stack, myEllipses, myNamed >>

ID1 == /\ pc = "ID1"
       /\ IF Tok(i) = "..."
             THEN /\ i' = Adv(i)
             ELSE /\ TRUE
                  /\ i' = i
       /\ pc' = "ID2"
       /\ UNCHANGED << input, augs, stack, myEllipses, myNamed >>

ID2 == /\ pc = "ID2"
       /\ pc' = Head(stack).pc
       /\ stack' = Tail(stack)
       /\ UNCHANGED << input, i, augs, myEllipses, myNamed >>

ident == ID0 \/ ID1 \/ ID2

EL0 == /\ pc = "EL0"
       /\ i' = Adv(i)
       /\ pc' = "EL1"
       /\ UNCHANGED << input, augs, stack, myEllipses, myNamed >>

EL1 == /\ pc = "EL1"
       /\ IF Tok(i) = "id"
             THEN /\ i' = Adv(i)
                  /\ augs' = augs
             ELSE /\ augs' = Append(augs, "dots")
                  /\ i' = i
       /\ pc' = "EL2"
       /\ UNCHANGED << input, stack, myEllipses, myNamed >>

EL2 == /\ pc = "EL2"
       /\ pc' = Head(stack).pc
       /\ stack' = Tail(stack)
       /\ UNCHANGED << input, i, augs, myEllipses, myNamed >>

ellipsis == EL0 \/ EL1 \/ EL2

FD0 == /\ pc = "FD0"
       /\ i' = Adv(i)
       /\ pc' = "FD1"
       /\ UNCHANGED << input, augs, stack, myEllipses, myNamed >>

FD1 == /\ pc = "FD1"
       /\ IF Tok(i) = "("
             THEN /\ i' = Adv(i)
                  /\ pc' = "FD2"
             ELSE /\ pc' = "FD4"
                  /\ i' = i
       /\ UNCHANGED << input, augs, stack, myEllipses, myNamed >>

FD2 == /\ pc = "FD2"
       /\ IF Tok(i) # ")" /\ Tok(i) # "EOF"
             THEN /\ stack' = << [ procedure |->  "process",
                                   pc        |->  "FD2" ] >>
                               \o stack
                  /\ pc' = "PR0"
             ELSE /\ pc' = "FD3"
                  /\ stack' = stack
       /\ UNCHANGED << input, i, augs, myEllipses, myNamed >>

FD3 == /\ pc = "FD3"
       /\ i' = Adv(i)
       /\ pc' = "FD4"
       /\ UNCHANGED << input, augs, stack, myEllipses, myNamed >>

FD4 == /\ pc = "FD4"
       /\ i' = Adv(i)
       /\ pc' = "FD5"
       /\ UNCHANGED << input, augs, stack, myEllipses, myNamed >>

FD5 == /\ pc = "FD5"
       /\ stack' = << [ procedure |->  "fieldList",
                        pc        |->  "FD6",
                        myEllipses |->  myEllipses,
                        myNamed   |->  myNamed ] >>
                    \o stack
       /\ myEllipses' = 0
       /\ myNamed' = FALSE
       /\ pc' = "FL0"
       /\ UNCHANGED << input, i, augs >>

FD6 == /\ pc = "FD6"
       /\ IF Tok(i) = "("
             THEN /\ stack' = << [ procedure |->  "fieldList",
                                   pc        |->  "FD7",
                                   myEllipses |->  myEllipses,
                                   myNamed   |->  myNamed ] >>
                               \o stack
                  /\ myEllipses' = 0
                  /\ myNamed' = FALSE
                  /\ pc' = "FL0"
             ELSE /\ pc' = "FD7"
                  /\ UNCHANGED << stack, myEllipses, myNamed >>
       /\ UNCHANGED << input, i, augs >>

FD7 == /\ pc = "FD7"
       /\ pc' = Head(stack).pc
       /\ stack' = Tail(stack)
       /\ UNCHANGED << input, i, augs, myEllipses, myNamed >>

funcDecl == FD0 \/ FD1 \/ FD2 \/ FD3 \/ FD4 \/ FD5 \/ FD6 \/ FD7

FN0 == /\ pc = "FN0"
       /\ i' = Adv(i)
       /\ pc' = "FN1"
       /\ UNCHANGED << input, augs, stack, myEllipses, myNamed >>

FN1 == /\ pc = "FN1"
       /\ stack' = << [ procedure |->  "fieldList",
                        pc        |->  "FN2",
                        myEllipses |->  myEllipses,
                        myNamed   |->  myNamed ] >>
                    \o stack
       /\ myEllipses' = 0
       /\ myNamed' = FALSE
       /\ pc' = "FL0"
       /\ UNCHANGED << input, i, augs >>

FN2 == /\ pc = "FN2"
       /\ IF Tok(i) = "("
             THEN /\ stack' = << [ procedure |->  "fieldList",
                                   pc        |->  "FN3",
                                   myEllipses |->  myEllipses,
                                   myNamed   |->  myNamed ] >>
                               \o stack
                  /\ myEllipses' = 0
                  /\ myNamed' = FALSE
                  /\ pc' = "FL0"
             ELSE /\ pc' = "FN3"
                  /\ UNCHANGED << stack, myEllipses, myNamed >>
       /\ UNCHANGED << input, i, augs >>

FN3 == /\ pc = "FN3"
       /\ pc' = Head(stack).pc
       /\ stack' = Tail(stack)
       /\ UNCHANGED << input, i, augs, myEllipses, myNamed >>

function == FN0 \/ FN1 \/ FN2 \/ FN3

FL0 == /\ pc = "FL0"
       /\ i' = Adv(i)
       /\ pc' = "FL1"
       /\ UNCHANGED << input, augs, stack, myEllipses, myNamed >>

FL1 == /\ pc = "FL1"
       /\ IF Tok(i) # ")" /\ Tok(i) # "EOF"
             THEN /\ IF Tok(i) = "func"
                        THEN /\ stack' = << [ procedure |->  "function",
                                              pc        |->  "FL1" ] >>
                                          \o stack
                             /\ pc' = "FN0"
                             /\ i' = i
                        ELSE /\ IF IsIdent(Tok(i))
                                   THEN /\ i' = Adv(i)
                                        /\ pc' = "FLa"
                                   ELSE /\ IF Tok(i) = "..."
                                              THEN /\ i' = Adv(i)
                                                   /\ pc' = "FLd"
                                              ELSE /\ i' = Adv(i)
                                                   /\ pc' = "FL1"
                             /\ stack' = stack
             ELSE /\ pc' = "FL2"
                  /\ UNCHANGED << i, stack >>
       /\ UNCHANGED << input, augs, myEllipses, myNamed >>

FLa == /\ pc = "FLa"
       /\ IF Tok(i) = "."
             THEN /\ i' = Adv(i)
                  /\ pc' = "FLb"
             ELSE /\ pc' = "FLc"
                  /\ i' = i
       /\ UNCHANGED << input, augs, stack, myEllipses, myNamed >>

FLb == /\ pc = "FLb"
       /\ i' = Adv(i)
       /\ pc' = "FLc"
       /\ UNCHANGED << input, augs, stack, myEllipses, myNamed >>

FLc == /\ pc = "FLc"
       /\ IF Tok(i) # "," /\ Tok(i) # ")"
             THEN /\ myNamed' = TRUE
             ELSE /\ TRUE
                  /\ UNCHANGED myNamed
       /\ pc' = "FL1"
       /\ UNCHANGED << input, i, augs, stack, myEllipses >>

FLd == /\ pc = "FLd"
       /\ IF ~IsIdent(Tok(i))
             THEN /\ myEllipses' = myEllipses + 1
             ELSE /\ TRUE
                  /\ UNCHANGED myEllipses
       /\ pc' = "FL1"
       /\ UNCHANGED << input, i, augs, stack, myNamed >>

FL2 == /\ pc = "FL2"
       /\ i' = Adv(i)
       /\ pc' = "FL3"
       /\ UNCHANGED << input, augs, stack, myEllipses, myNamed >>

FL3 == /\ pc = "FL3"
       /\ IF myEllipses > 0
             THEN /\ augs' = Append(augs, IF myNamed THEN "dots-named" ELSE "dots")
                  /\ myEllipses' = myEllipses - 1
                  /\ pc' = "FL3"
             ELSE /\ pc' = "FL4"
                  /\ UNCHANGED << augs, myEllipses >>
       /\ UNCHANGED << input, i, stack, myNamed >>

FL4 == /\ pc = "FL4"
       /\ pc' = Head(stack).pc
       /\ myEllipses' = Head(stack).myEllipses
       /\ myNamed' = Head(stack).myNamed
       /\ stack' = Tail(stack)
       /\ UNCHANGED << input, i, augs >>

fieldList == FL0 \/ FL1 \/ FLa \/ FLb \/ FLc \/ FLd \/ FL2 \/ FL3 \/ FL4

PK0 == /\ pc = "PK0"
       /\ IF Tok(i) # "package"
             THEN /\ augs' = Append(augs, "fakepkg")
                  /\ pc' = "IM0"
                  /\ i' = i
             ELSE /\ i' = Adv(i)
                  /\ pc' = "PK1"
                  /\ augs' = augs
       /\ UNCHANGED << input, stack, myEllipses, myNamed >>

PK1 == /\ pc = "PK1"
       /\ i' = Adv(i)
       /\ pc' = "PK2"
       /\ UNCHANGED << input, augs, stack, myEllipses, myNamed >>

PK2 == /\ pc = "PK2"
       /\ i' = Adv(i)
       /\ pc' = "IM0"
       /\ UNCHANGED << input, augs, stack, myEllipses, myNamed >>

IM0 == /\ pc = "IM0"
       /\ IF Tok(i) = "import"
             THEN /\ i' = Adv(i)
                  /\ pc' = "IM1"
             ELSE /\ pc' = "TL0"
                  /\ i' = i
       /\ UNCHANGED << input, augs, stack, myEllipses, myNamed >>

IM1 == /\ pc = "IM1"
       /\ IF Tok(i) = "("
             THEN /\ pc' = "IM2"
                  /\ i' = i
             ELSE /\ IF Tok(i) = "EOF"
                        THEN /\ pc' = "TL0"
                             /\ i' = i
                        ELSE /\ IF Tok(i) = "." \/ IsIdent(Tok(i))
                                   THEN /\ i' = Adv(i)
                                   ELSE /\ TRUE
                                        /\ i' = i
                             /\ pc' = "IM5"
       /\ UNCHANGED << input, augs, stack, myEllipses, myNamed >>

IM2 == /\ pc = "IM2"
       /\ IF Tok(i) # ")" /\ Tok(i) # "EOF"
             THEN /\ i' = Adv(i)
                  /\ pc' = "IM2"
             ELSE /\ pc' = "IM3"
                  /\ i' = i
       /\ UNCHANGED << input, augs, stack, myEllipses, myNamed >>

IM3 == /\ pc = "IM3"
       /\ i' = Adv(i)
       /\ pc' = "IM4"
       /\ UNCHANGED << input, augs, stack, myEllipses, myNamed >>

IM4 == /\ pc = "IM4"
       /\ i' = Adv(i)
       /\ pc' = "IM0"
       /\ UNCHANGED << input, augs, stack, myEllipses, myNamed >>

IM5 == /\ pc = "IM5"
       /\ i' = Adv(i)
       /\ pc' = "IM6"
       /\ UNCHANGED << input, augs, stack, myEllipses, myNamed >>

IM6 == /\ pc = "IM6"
       /\ i' = Adv(i)
       /\ pc' = "IM0"
       /\ UNCHANGED << input, augs, stack, myEllipses, myNamed >>

TL0 == /\ pc = "TL0"
       /\ IF Tok(i) = "decl"
             THEN /\ i' = Adv(i)
                  /\ pc' = "M1"
                  /\ UNCHANGED << augs, stack >>
             ELSE /\ IF Tok(i) = "func"
                        THEN /\ stack' = << [ procedure |->  "funcDecl",
                                              pc        |->  "M1" ] >>
                                          \o stack
                             /\ pc' = "FD0"
                             /\ UNCHANGED << i, augs >>
                        ELSE /\ IF Tok(i) = "{"
                                   THEN /\ augs' = Append(augs, "fakefunc")
                                        /\ i' = Adv(i)
                                   ELSE /\ augs' = Append(augs, "fakefunc-braces")
                                        /\ i' = i
                             /\ pc' = "M1"
                             /\ stack' = stack
       /\ UNCHANGED << input, myEllipses, myNamed >>

M1 == /\ pc = "M1"
      /\ IF Tok(i) # "EOF"
            THEN /\ stack' = << [ procedure |->  "process",
                                  pc        |->  "M1" ] >>
                              \o stack
                 /\ pc' = "PR0"
            ELSE /\ pc' = "Done"
                 /\ stack' = stack
      /\ UNCHANGED << input, i, augs, myEllipses, myNamed >>

(* Allow infinite stuttering to prevent deadlock on termination. *)
Terminating == pc = "Done" /\ UNCHANGED vars

Next == process \/ ident \/ ellipsis \/ funcDecl \/ function \/ fieldList
           \/ PK0 \/ PK1 \/ PK2 \/ IM0 \/ IM1 \/ IM2 \/ IM3 \/ IM4 \/ IM5 \/ IM6
           \/ TL0 \/ M1
           \/ Terminating

Spec == /\ Init /\ [][Next]_vars
        /\ WF_vars(Next)

Termination == <>(pc = "Done")

\* END TRANSLATION 
 
 
 

\* printed for every input when the scanner has finished: the augmentations it found
\* (compared with what the real augmenter returns for the concretised input)
DumpAugs == pc = "Done" => PrintT(<<"AUGS", input, augs>>)
\* every augmentation comes from a token that is there: never more augmentations than tokens + 2
AugsBounded == Len(augs) <= Len(input) + 2
\* the cursor never leaves the input by more than one position
CursorInRange == i <= Len(input) + 2
====
