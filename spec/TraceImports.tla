---- MODULE TraceImports ----
(***************************************************************************)
(* Judges recorded executions of the real patch.Parse / File.Apply on      *)
(* concretised scenarios of Imports.tla (C10, C11).  Each record carries   *)
(* the patch-side clauses, what an independent observer (go/parser) saw in *)
(* the input file and in the output: the imports, the names still used as  *)
(* unresolved selector bases, and whether the code pattern was rewritten.  *)
(* r.prior is the number of other files the same parsed patch was applied  *)
(* to before this one and r.repeat the number of further applications of   *)
(* this file that had to return the same bytes (an "unstable" error        *)
(* otherwise): neither enters the verdict - what a file's result must be   *)
(* does not depend on the past of the parsed patch (C14).                  *)
(***************************************************************************)
EXTENDS Imports, Json

CONSTANTS TraceFile, OutFile
Trace == ndJsonDeserialize(TraceFile)

VARIABLES l, verdicts
tvars == <<l, verdicts>>

ScOf(r) == [pkg |-> r.pkg, pimps |-> r.pimps, fimps |-> r.fimps, uses |-> SeqToSet(r.uses)]
\* one import per path in the input (anything else is outside the table and not judged)
InTable(s) == \A i, j \in 1..Len(s.fimps) : i # j => s.fimps[i].path # s.fimps[j].path

Verdict(r) ==
  LET s == ScOf(r)
      out == SeqToSet(r.out)
      ip == IApply(s)
      changed == r.changed = "1"
  IN [id |-> r.id,
      judged |-> IF InTable(s) THEN "1" ELSE "0",
      holds |-> IF GuardsHold(s) THEN "1" ELSE "0",
      kf |-> IF GuardsHold(s) /\ PlusEqualsMatched(s) THEN "1" ELSE "0",
      ieq |-> IF ip.changed = changed /\ ip.out = out THEN "1" ELSE "0",
      viol |-> IF ~InTable(s) THEN <<>> ELSE SetToSeq(
         (IF r.err = "" THEN {} ELSE {"NoError"})
         \cup (IF changed <=> GuardsHold(s) THEN {} ELSE {"C10_AppliesIffGuardsHold"})
         \* a metavariable bound by an import line stands for that import's name in the code pattern too:
         \* the same call through another name is not an instance
         \cup (IF r.decoy = "1" THEN {} ELSE {"C10_ImportNameBindsBody"})
         \* ... and where the '+' code mentions it, the output says the name under which the file knows the package
         \* (r.plusq; C03: a metavariable occurrence is replaced by what it stood for)
         \cup (IF r.plusq = "1" THEN {} ELSE {"C03_PlusUnderCapturedName"})
         \cup (IF (~GuardsHold(s)) /\ out # SeqToSet(s.fimps) THEN {"C10_GuardFailedNoEffect"} ELSE {})
         \cup (IF GuardsHold(s) /\ changed THEN C11_Violations(s, out) ELSE {}))]

TraceInit == l = 1 /\ verdicts = <<>> /\ stage = "patch" /\ sc = [pkg |-> "", pimps |-> <<>>, fimps |-> <<>>, uses |-> {}]
TraceNext == l <= Len(Trace) /\ l' = l + 1 /\ verdicts' = Append(verdicts, Verdict(Trace[l])) /\ UNCHANGED vars
TraceSpec == TraceInit /\ [][TraceNext]_<<vars, tvars>>
Flush == (l = Len(Trace) + 1) => ndJsonSerialize(OutFile, verdicts)
Accepted == TLCGet("stats").diameter - 1 = Len(Trace)
====
