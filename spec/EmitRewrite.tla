---- MODULE EmitRewrite ----
(* Writes the universe of RewriteUniverse as NDJSON vectors (one (P, Q)   *)
(* pair per line, one subject per line) for replay into the real code.     *)
EXTENDS RewriteUniverse
CONSTANTS PairsFile, SubjectsFile
VARIABLE emitted
Init == emitted = (ndJsonSerialize(PairsFile, [i \in 1..Len(PairSeq) |-> [pat |-> PairSeq[i][1], plus |-> PairSeq[i][2]]])
                   /\ ndJsonSerialize(SubjectsFile, SubjSeq))
Spec == Init /\ [][UNCHANGED emitted]_emitted
====
