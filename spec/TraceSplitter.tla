---- MODULE TraceSplitter ----
(***************************************************************************)
(* C13: (a) what the real sectioner (section.Split through the verif       *)
(* export) produced for rendered line-kind files, judged against the       *)
(* P-layer of Splitter.tla; (b) metamorphic pairs: the result of a patch   *)
(* and of a layout variant of it on the same file must be syntactically    *)
(* identical (terms of harness/alpha.go), and the reported description     *)
(* must be the '#' lines directly above the header.                        *)
(***************************************************************************)
EXTENDS Splitter, Json, SequencesExt
CONSTANTS TraceFile, OutFile
Trace == ndJsonDeserialize(TraceFile)
VARIABLES l, verdicts
tvars == <<l, verdicts>>

\* record kinds: "split" [file, obs] ; "pair" [base, variant, baseErr, variantErr, descWant, descGot]
SplitOK(r) == r.obs = PChanges(r.file)
PairOK(r)  == r.baseErr = r.variantErr /\ r.base = r.variant
DescOK(r)  == r.descGot = r.descWant

Verdict(r) ==
  [id |-> r.id,
   viol |-> SetToSeq(IF r.kind = "split"
                     THEN (IF SplitOK(r) THEN {} ELSE {"SectionStructure"})
                     ELSE (IF PairOK(r) THEN {} ELSE {"SameResult"}) \cup (IF DescOK(r) THEN {} ELSE {"Description"}))]

TraceInit == /\ l = 1 /\ verdicts = <<>>
             /\ file = <<>> /\ pos = 1 /\ last = <<>> /\ phase = "idle"
             /\ cur = [hdr |-> 0, desc |-> <<>>, meta |-> <<>>, body |-> <<>>] /\ out = <<>>
TraceNext == l <= Len(Trace) /\ l' = l + 1 /\ verdicts' = Append(verdicts, Verdict(Trace[l])) /\ UNCHANGED vars
TraceSpec == TraceInit /\ [][TraceNext]_<<vars, tvars>>
Flush == (l = Len(Trace) + 1) => ndJsonSerialize(OutFile, verdicts)
Accepted == TLCGet("stats").diameter - 1 = Len(Trace)
====
