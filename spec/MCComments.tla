---- MODULE MCComments ----
(* Design check of the region arithmetic of astdiff.walkSlice: every layout *)
(* of up to MaxItems items, each with an optional leading and an optional   *)
(* trailing comment and gaps of 0 or 1 between neighbours, on one line of   *)
(* offsets; items and comments have length 1 or 2.                          *)
EXTENDS Comments
CONSTANTS MaxItems
Bit == {0, 1}
Shape == [g0 : Bit, before : Bit, gb : Bit, len : {1, 2}, ga : Bit, after : Bit]
RECURSIVE Place(_, _, _)
\* lays the shapes out from offset `at`; returns the items
Place(shapes, k, at) ==
  IF k > Len(shapes) THEN <<>>
  ELSE LET s == shapes[k]
           bp == at + s.g0
           be == bp + 1
           ip == IF s.before = 1 THEN be + s.gb ELSE at + s.g0
           ie == ip + s.len
           ap == ie + s.ga
           ae == ap + 1
           nxt == IF s.after = 1 THEN ae ELSE ie
           it == [pos |-> ip, end |-> ie,
                  before |-> IF s.before = 1 THEN <<[p |-> bp, e |-> be]>> ELSE <<>>,
                  after |-> IF s.after = 1 THEN <<[p |-> ap, e |-> ae]>> ELSE <<>>]
       IN <<it>> \o Place(shapes, k + 1, nxt)
VARIABLE shapes
items == Place(shapes, 1, 1)
End == IF shapes = <<>> THEN 1 ELSE LET it == Last(items) IN (IF it.after = <<>> THEN it.end ELSE Last(it.after).e) + 1
Init == shapes \in UNION {[1..n -> Shape] : n \in 1..MaxItems}
Next == UNCHANGED shapes
Spec == Init /\ [][Next]_shapes
DesignOK == OthersCommentsSurvive(items, 0, End)
\* the region of an item contains the item itself
CoversItem == \A i \in 1..Len(items) : LET r == Region(items, i, 0, End) IN r.p <= items[i].pos /\ r.e >= items[i].end
====
