---- MODULE TraceCrash ----
(***************************************************************************)
(* Outcome monitor for C08: every recorded execution of patch.Parse /      *)
(* File.Apply / the command on a (patch, source) pair must end promptly in *)
(* one of two ways - the rewrite, or a diagnostic with a failure status.   *)
(* Records: [id, outcome, diag, status]                                    *)
(*   outcome  ok | error | panic | timeout | oom | killed                  *)
(*   diag     "1" iff a non-empty diagnostic (error text / stderr) exists  *)
(*   status   "0" success status, "1" failure status (error value /        *)
(*            non-zero exit), "x" abnormal                                  *)
(* For token strings of the Finder universe the record also carries the    *)
(* augmentations the real scanner returned and the model's prediction.     *)
(***************************************************************************)
EXTENDS Naturals, Sequences, FiniteSets, TLC, Json, SequencesExt
CONSTANTS TraceFile, OutFile
Trace == ndJsonDeserialize(TraceFile)
VARIABLES l, verdicts
Violations(r) ==
  (IF r.outcome \in {"ok", "error"} THEN {} ELSE {"NoCrashNoHang_" \o r.outcome})
  \cup (IF r.outcome = "error" /\ r.diag # "1" THEN {"FailureHasDiagnostic"} ELSE {})
  \cup (IF (r.outcome = "ok" /\ r.status # "0") \/ (r.outcome = "error" /\ r.status # "1") THEN {"StatusMatchesOutcome"} ELSE {})
TraceInit == l = 1 /\ verdicts = <<>>
TraceNext == /\ l <= Len(Trace) /\ l' = l + 1
             /\ verdicts' = Append(verdicts, [id |-> Trace[l].id, viol |-> SetToSeq(Violations(Trace[l])),
                                              ieq |-> IF Trace[l].augs = Trace[l].pred THEN "1" ELSE "0"])
TraceSpec == TraceInit /\ [][TraceNext]_<<l, verdicts>>
Flush == (l = Len(Trace) + 1) => ndJsonSerialize(OutFile, verdicts)
Accepted == TLCGet("stats").diameter - 1 = Len(Trace)
====
