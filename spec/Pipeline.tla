---- MODULE Pipeline ----
(***************************************************************************)
(* The run pipeline of the gopatch command (main.go: mainCmd.Run,          *)
(* patchRunner.Apply) as a state machine over abstract file kinds, with    *)
(* the in-place write modelled at system-call granularity (create a        *)
(* temporary file, write it, rename it over the target) and an environment *)
(* that may fail or kill the process at one of those calls.                *)
(*                                                                         *)
(* I-layer: one action per stage of the per-file loop; deliberate oddities *)
(* are modelled as the code has them (per-file errors are collected and    *)
(* printed at the very end, descriptions are printed immediately, a failed *)
(* replacement makes the file count as unmatched).  History: the pinned    *)
(* revision aborted on an unreadable target (dropping collected errors),   *)
(* did not re-parse with --skip-import-processing and wrote with           *)
(* open(O_TRUNC)+write; TLC refuted C16_Reported, C07_EmittedParses and    *)
(* C16_Atomic on that model, the defects were reproduced on the binary and *)
(* repaired (known_findings.jsonl, "fixed" entries).                       *)
(* P-layer: the invariants at the bottom are the statements of C06, C07,   *)
(* C12, C16 and C18 over the observable state (disk, stdout, stderr, exit, *)
(* the set of files touched by a file-mutating system call).               *)
(***************************************************************************)
EXTENDS Integers, Sequences, FiniteSets, TLC

CONSTANTS MaxFiles,     \* number of target files of a run is 1..MaxFiles
          Kinds,        \* subset of AllKinds to enumerate
          FaultPoints   \* subset of AllFaults to enumerate

AllKinds == {"match",        \* parses, a described change applies, result parses
             "nomatch",      \* parses, nothing applies
             "unparseable",  \* does not parse
             "generated",    \* carries a generated-code marker; a change would apply
             "badresult",    \* a change applies and produces text that does not parse
             "replaceerr"}   \* a change matches but its replacement step fails
AllFaults == {"none", "read",        \* the target cannot be read
              "fsize",               \* file-size limit: writes of new content fail
              "rename", "kill_rename",  \* rename fails / process killed before the rename
              "missing",             \* an extra argument names a path that does not exist (given before file f)
              "stdoutfull",          \* standard output cannot be written to (it is full, or closed by the reader)
              "badpatch",            \* the patches are requested through a patch list (-P) that cannot be read
                                     \* (it is a directory, or holds a line longer than the line buffer)
              "rodir", "rodir_fsize"}  \* the directory is read-only for the (unprivileged) user: no temporary file can
                                     \* be created next to the target; alone, or together with the file-size limit

VARIABLES kinds,    \* <<kind of file 1, ...>>  (targets in processing order)
          flags,    \* [diff, print, skipImports, skipGenerated, verbose : BOOLEAN]
          fault,    \* [f |-> file index, p |-> fault point]
          cur, stage,
          disk,     \* file -> "orig" | "patched" | "badpatched" (observations also: "empty" "partial" "other")
          stdout,   \* sequence of [f, what]: "orig" "patched" "badpatched" "diff" "baddiff" "log"
          stderr,   \* sequence of [f, what]: "desc" | error causes
          errs,     \* sequence of [f, what] collected for the end of the run
          rerrs,    \* patchRunner.errors
          touched,  \* files named by a file-mutating system call (0 = something that is not a target)
          nwrites,  \* number of content writes so far
          exit      \* -1 while running
vars == <<kinds, flags, fault, cur, stage, disk, stdout, stderr, errs, rerrs, touched, nwrites, exit>>

N == Len(kinds)
Flags == [diff : BOOLEAN, print : BOOLEAN, skipImports : BOOLEAN, skipGenerated : BOOLEAN, verbose : BOOLEAN]
FaultAt(p) == fault.f = cur /\ fault.p = p

Init ==
  /\ kinds \in UNION {[1..n -> Kinds] : n \in 1..MaxFiles}
  /\ flags \in Flags
  /\ fault \in {[f |-> 0, p |-> q] : q \in FaultPoints \cap {"none", "fsize", "rodir", "rodir_fsize", "badpatch", "stdoutfull"}}
               \cup {[f |-> i, p |-> q] : i \in 1..Len(kinds), q \in FaultPoints \ {"none", "fsize", "missing", "rodir", "rodir_fsize", "badpatch", "stdoutfull"}}
               \cup {[f |-> i, p |-> q] : i \in 1..(Len(kinds) + 1), q \in FaultPoints \cap {"missing"}}
  /\ cur = 1 /\ stage = "load"
  /\ disk = [i \in 1..Len(kinds) |-> "orig"]
  /\ stdout = <<>> /\ stderr = <<>> /\ errs = <<>> /\ rerrs = <<>>
  /\ touched = {} /\ nwrites = 0 /\ exit = -1

StdoutFull == fault.p = "stdoutfull"
Out(what) == stdout' = IF StdoutFull THEN stdout ELSE Append(stdout, [f |-> cur, what |-> what])
\* -v: one line per file ("<file>: patched|skipped|failed: ...") on standard error (log := log.New(cmd.Stderr, ...))
LogRec == IF flags.verbose THEN <<[f |-> cur, what |-> "log"]>> ELSE <<>>
Log(what) == stderr' = stderr \o LogRec
Err(what) == errs' = Append(errs, [f |-> cur, what |-> what])
NextFile  == cur' = cur + 1 /\ stage' = IF cur = N THEN "finish" ELSE "read"

\* progs, err := cmd.loadPatches(opts); if err != nil { return err }: patches that cannot be loaded end the run
\* before anything else happens; the cause is printed, exit 1
LoadPatches ==
  /\ stage = "load"
  /\ IF fault.p = "badpatch"
     THEN /\ stderr' = Append(stderr, [f |-> 0, what |-> "patchload"]) /\ exit' = 1 /\ stage' = "done"
     ELSE /\ stage' = "discover" /\ UNCHANGED <<stderr, exit>>
  /\ UNCHANGED <<kinds, flags, fault, cur, disk, stdout, errs, rerrs, touched, nwrites>>

\* files, err := findFiles(cwd, patterns); if err != nil { return err }: a path that cannot
\* be enumerated ends the run before any file is looked at; the cause is printed, exit 1
Discover ==
  /\ stage = "discover"
  /\ IF fault.p = "missing"
     THEN /\ stderr' = Append(stderr, [f |-> 0, what |-> "enumerate"]) /\ exit' = 1 /\ stage' = "done"
     ELSE /\ stage' = "read" /\ UNCHANGED <<stderr, exit>>
  /\ UNCHANGED <<kinds, flags, fault, cur, disk, stdout, errs, rerrs, touched, nwrites>>

\* content, err := os.ReadFile(filename); if err != nil { errors = append(errors, err); continue }
Read ==
  /\ stage = "read"
  /\ IF FaultAt("read")
     THEN Err("read") /\ NextFile
     ELSE stage' = "parse" /\ UNCHANGED <<cur, errs>>
  /\ UNCHANGED <<kinds, flags, fault, disk, stdout, stderr, rerrs, touched, nwrites, exit>>

\* parser.ParseFile: on error append "could not parse" and continue
Parse ==
  /\ stage = "parse"
  /\ IF kinds[cur] = "unparseable"
     THEN Err("parse") /\ NextFile /\ UNCHANGED <<stdout>>
     ELSE stage' = "generated" /\ UNCHANGED <<cur, errs, stdout>>
  /\ UNCHANGED <<kinds, flags, fault, disk, stderr, rerrs, touched, nwrites, exit>>

\* if opts.SkipGenerated && checkGeneratedCode(f) { log; continue }
Generated ==
  /\ stage = "generated"
  /\ IF flags.skipGenerated /\ kinds[cur] = "generated"
     THEN Log("log") /\ NextFile
     ELSE stage' = "apply" /\ UNCHANGED <<cur, stderr>>
  /\ UNCHANGED <<kinds, flags, fault, disk, stdout, errs, rerrs, touched, nwrites, exit>>

\* patchRunner.Apply; if !ok { echo original in print mode; log; continue }
Apply ==
  /\ stage = "apply"
  /\ IF kinds[cur] \in {"match", "generated", "badresult"}
     THEN /\ stage' = "format" /\ UNCHANGED <<cur, stdout, stderr, rerrs, errs>>
     ELSE /\ rerrs' = IF kinds[cur] = "replaceerr" THEN Append(rerrs, [f |-> cur, what |-> "replace"]) ELSE rerrs
          \* (echoing the file fails when standard output cannot be written to: the error is collected like
          \*  every other per-file error and the run goes on)
          /\ IF StdoutFull
             THEN /\ stdout' = stdout
                  /\ errs' = IF flags.print THEN Append(errs, [f |-> cur, what |-> "stdout"]) ELSE errs
             ELSE /\ stdout' = (IF flags.print THEN Append(stdout, [f |-> cur, what |-> "orig"]) ELSE stdout)
                  /\ errs' = errs
          /\ Log("log")
          /\ NextFile
  /\ UNCHANGED <<kinds, flags, fault, disk, touched, nwrites, exit>>

\* format.Node never fails on these kinds; the result is re-parsed by
\* imports.Process or, with --skip-import-processing, by go/parser
FormatImports ==
  /\ stage = "format"
  /\ IF kinds[cur] = "badresult"
     THEN Err("reformat") /\ NextFile
     ELSE stage' = "emit" /\ UNCHANGED <<cur, errs>>
  /\ UNCHANGED <<kinds, flags, fault, disk, stdout, stderr, rerrs, touched, nwrites, exit>>

Bad == kinds[cur] = "badresult"

\* switch { case opts.Diff: preview; case opts.Print: print; default: WriteFile }
EmitDiff ==
  /\ stage = "emit" /\ flags.diff
  /\ stderr' = Append(stderr, [f |-> cur, what |-> "desc"]) \o LogRec
  /\ IF StdoutFull
     THEN stdout' = stdout /\ errs' = Append(errs, [f |-> cur, what |-> "stdout"])
     ELSE /\ stdout' = Append(stdout, [f |-> cur, what |-> IF Bad THEN "baddiff" ELSE "diff"])
          /\ errs' = errs
  /\ NextFile
  /\ UNCHANGED <<kinds, flags, fault, disk, rerrs, touched, nwrites, exit>>

EmitPrint ==
  /\ stage = "emit" /\ ~flags.diff /\ flags.print
  /\ stderr' = Append(stderr, [f |-> cur, what |-> "desc"]) \o LogRec
  /\ IF StdoutFull
     THEN stdout' = stdout /\ errs' = Append(errs, [f |-> cur, what |-> "stdout"])
     ELSE /\ stdout' = Append(stdout, [f |-> cur, what |-> IF Bad THEN "badpatched" ELSE "patched"])
          /\ errs' = errs
  /\ NextFile
  /\ UNCHANGED <<kinds, flags, fault, disk, rerrs, touched, nwrites, exit>>

\* writeFileAtomic = CreateTemp; write; chmod; close; rename(tmp, target)
\* A kill leaves the target as it was (and possibly a stray temporary file,
\* which is not a Go file); an error removes the temporary file.
Kill == stage' = "killed" /\ exit' = 137 /\ UNCHANGED <<cur, stderr, errs>>

WriteTemp ==
  /\ stage = "emit" /\ ~flags.diff /\ ~flags.print
  /\ nwrites' = nwrites + 1
  /\ IF fault.p \in {"fsize", "rodir", "rodir_fsize"}   \* the limit / the directory stays as it is: every in-place write fails
     THEN Err("write") /\ Log("log") /\ NextFile
     ELSE stage' = "rename" /\ UNCHANGED <<cur, stderr, errs>>
  /\ UNCHANGED <<kinds, flags, fault, disk, stdout, rerrs, touched, exit>>

WriteRename ==
  /\ stage = "rename"
  /\ IF FaultAt("kill_rename") THEN Kill /\ UNCHANGED disk /\ touched' = touched \cup {0}   \* stray temporary file
     ELSE IF FaultAt("rename") THEN Err("write") /\ Log("log") /\ NextFile /\ UNCHANGED <<disk, touched, exit>>
     ELSE /\ disk' = [disk EXCEPT ![cur] = IF Bad THEN "badpatched" ELSE "patched"]
          /\ touched' = touched \cup {cur}
          /\ Log("log") /\ NextFile /\ UNCHANGED <<errs, exit>>
  /\ UNCHANGED <<kinds, flags, fault, stdout, rerrs, nwrites>>

\* errors = append(errors, patchRunner.errors...); runMain prints them, exit 1
Finish ==
  /\ stage = "finish"
  /\ stderr' = stderr \o errs \o rerrs
  /\ exit' = IF Len(errs) + Len(rerrs) > 0 THEN 1 ELSE 0
  /\ stage' = "done"
  /\ UNCHANGED <<kinds, flags, fault, cur, disk, stdout, errs, rerrs, touched, nwrites>>

Next == LoadPatches \/ Discover \/ Read \/ Parse \/ Generated \/ Apply \/ FormatImports \/ EmitDiff \/ EmitPrint
        \/ WriteTemp \/ WriteRename \/ Finish
Spec == Init /\ [][Next]_vars /\ WF_vars(Next)

\* --------------------------------------------------------------- P-layer --
Ended == stage \in {"done", "killed"}
ReadFails(i) == fault.f = i /\ fault.p = "read"
Unmatched(i) == ~ReadFails(i) /\ (kinds[i] = "nomatch" \/ (kinds[i] = "generated" /\ flags.skipGenerated))
StdoutOf(i) == SelectSeq(stdout, LAMBDA r : r.f = i /\ r.what # "log")
StderrOf(i) == SelectSeq(stderr, LAMBDA r : r.f = i /\ r.what # "log")      \* (what is said about file i, the -v lines aside)
\* the run ended before any file was looked at
Aborted == fault.p \in {"missing", "badpatch"}
Processed(i) == ~Aborted /\ (i < cur \/ stage \in {"finish", "done"})

\* C06 (and C18 first half): no match => no effect
C06_NoMatchNoEffect ==
  \A i \in 1..N : Unmatched(i) =>
      /\ disk[i] = "orig" /\ i \notin touched
      /\ (~StdoutFull => StderrOf(i) = <<>>)
      /\ StdoutOf(i) \in {<<>>, <<[f |-> i, what |-> "orig"]>>}
      /\ (Processed(i) /\ kinds[i] = "nomatch" /\ flags.print /\ ~StdoutFull => StdoutOf(i) = <<[f |-> i, what |-> "orig"]>>)
      /\ (kinds[i] = "generated" \/ ~flags.print => StdoutOf(i) = <<>>)
C06_ExitZero ==
  stage = "done" /\ (\A i \in 1..N : Unmatched(i) \/ kinds[i] = "match") /\ fault.p = "none" => exit = 0

\* C07: whatever is emitted parses
C07_EmittedParses ==
  /\ \A i \in 1..N : disk[i] # "badpatched"
  \* a file that a run reporting success left empty or cut short ("partial": a proper prefix of its new text) was
  \* emitted, and is not a Go source file
  /\ (Ended /\ exit = 0) => \A i \in 1..N : disk[i] \notin {"empty", "partial"}
  /\ \A k \in 1..Len(stdout) : stdout[k].what \notin {"badpatched", "baddiff"}
\* whatever is on stdout is, piece by piece, something the run is supposed to emit: a file's
\* original or patched bytes, a complete diff, a log line (the observation marks anything
\* else - e.g. a file's content cut short - as "other")
C07_OutputWellFormed == \A k \in 1..Len(stdout) : stdout[k].what # "other"
C07_BadResultReported ==
  stage = "done" /\ ~Aborted =>
     \A i \in 1..N : kinds[i] = "badresult" => exit # 0 /\ StderrOf(i) # <<>>

\* C12: dry runs never write
C12_DryRunNeverWrites == (flags.diff \/ flags.print) => touched = {} /\ \A i \in 1..N : disk[i] = "orig"
\* standard output carries what the dry modes emit for the files and nothing else: with -v as without it, its bytes
\* are the files' texts (--print-only) or their diffs (--diff)
C12_StdoutIsOutputOnly == \A k \in 1..Len(stdout) : stdout[k].what # "log"
C12_DescriptionsOnStderrOnly ==
  /\ \A k \in 1..Len(stderr) : stderr[k].what = "desc" => kinds[stderr[k].f] \in {"match", "generated", "badresult"}
  \* ("wrongdesc": the description of a change that does not apply to the file it is printed for)
  /\ \A k \in 1..Len(stderr) : stderr[k].what # "wrongdesc"

\* C16: no half-written files, failures reported
C16_Atomic == Ended => \A i \in 1..N : disk[i] \in {"orig", "patched", "badpatched"}
\* ... at every instant, not only at the end (a crash can happen anywhere)
C16_AtomicAlways == \A i \in 1..N : disk[i] \in {"orig", "patched", "badpatched"}
\* files whose new content would be written in place
Written(i) ==
  /\ ~flags.diff /\ ~flags.print
  /\ kinds[i] \in {"match", "generated"} /\ ~(kinds[i] = "generated" /\ flags.skipGenerated) /\ ~ReadFails(i)
Failed(i) == \/ kinds[i] \in {"unparseable", "replaceerr", "badresult"}
             \/ ReadFails(i)
             \/ (fault.p \in {"fsize", "rodir_fsize"} /\ Written(i))
             \/ (fault.f = i /\ fault.p = "rename" /\ ~flags.diff /\ ~flags.print
                 /\ kinds[i] \in {"match", "generated"} /\ ~(kinds[i] = "generated" /\ flags.skipGenerated))
\* a read-only directory alone: whether the file can still be updated is the implementation's
\* choice (the statement demands neither); if it is not updated that must be reported
MayFail(i) == fault.p = "rodir" /\ Written(i)
\* files for which something is written to standard output in a dry run
Emits(i) == /\ ~ReadFails(i)
            /\ \/ (kinds[i] = "match" /\ (flags.diff \/ flags.print))
               \/ (kinds[i] = "nomatch" /\ flags.print)
C16_Reported ==
  stage = "done" =>
     /\ \A i \in 1..N : (Failed(i) /\ Processed(i)) => exit # 0 /\ StderrOf(i) # <<>>
     /\ \A i \in 1..N : (MayFail(i) /\ Processed(i) /\ disk[i] = "orig") => exit # 0 /\ StderrOf(i) # <<>>
     \* a path that could not be processed at all is reported, with its cause
     /\ (fault.p = "missing" => exit # 0 /\ \E k \in 1..Len(stderr) : stderr[k].what = "enumerate")
     \* ... and so are patches that could not be loaded
     /\ (fault.p = "badpatch" => exit # 0 /\ \E k \in 1..Len(stderr) : stderr[k].what = "patchload")
     \* when standard output cannot be written to, that is reported - and so is every other failure of the run
     /\ (StdoutFull /\ (\E i \in 1..N : Processed(i) /\ Emits(i)) => exit # 0 /\ \E k \in 1..Len(stderr) : stderr[k].what = "stdout")
C16_ExitZeroMeansAllDone ==
  stage = "done" /\ exit = 0 => ~Aborted /\ ~(StdoutFull /\ \E i \in 1..N : Emits(i)) /\ \A i \in 1..N : Unmatched(i) \/ disk[i] \in {"patched", "badpatched"} \/ flags.diff \/ flags.print
\* an unparseable target does not change what happens to any other file
C16_Isolation ==
  stage = "done" /\ ~Aborted =>
     \A i \in 1..N : kinds[i] = "match" /\ ~Failed(i) /\ ~MayFail(i) /\ ~flags.diff /\ ~flags.print => disk[i] = "patched"

\* C18: --skip-generated protects generated files, and only them
C18_Protected ==
  \A i \in 1..N : kinds[i] = "generated" /\ flags.skipGenerated /\ ~ReadFails(i) =>
      disk[i] = "orig" /\ i \notin touched /\ StdoutOf(i) = <<>> /\ StderrOf(i) = <<>>
C18_OnlyThem ==
  stage = "done" /\ fault.p = "none" /\ ~flags.skipGenerated /\ ~flags.diff /\ ~flags.print =>
      \A i \in 1..N : kinds[i] = "generated" => disk[i] = "patched"

\* ... a file without any marker is processed exactly as without the flag
C18_PlainProcessed ==
  stage = "done" /\ ~Aborted =>
     \A i \in 1..N : kinds[i] = "match" /\ ~Failed(i) /\ ~MayFail(i) /\ ~StdoutFull =>
        IF flags.diff THEN \E k \in 1..Len(stdout) : stdout[k] = [f |-> i, what |-> "diff"]
        ELSE IF flags.print THEN \E k \in 1..Len(stdout) : stdout[k] = [f |-> i, what |-> "patched"]
        ELSE disk[i] = "patched"

Terminates == <>(Ended)
====
