---- MODULE EmitHistory ----
(* Writes (file, change sequence) scenarios of History.tla for replay into  *)
(* the real code, PerClass of each class (TLC's RandomSubset):              *)
(*   dependent - some change matches only what an earlier one produced      *)
(*   removed   - some change would match the original file but not what the *)
(*               earlier changes left                                       *)
(*   fails     - some step fails (after none / some changes applied)        *)
(*   plain     - none of these                                              *)
(*   repeat    - the same change given twice, and the second time matters   *)
(*   inner     - (built from templates three calls deep) an earlier change  *)
(*               rewrites code INSIDE a place that a later change compares  *)
(*               with a repeated metavariable                               *)
EXTENDS History, Json, Randomization
CONSTANTS OutFile, PerClass, NFiles, NSeqs    \* candidates are drawn from NFiles random files x NSeqs random change sequences
Pick(n, S) == IF n = 0 \/ Cardinality(S) <= n THEN S ELSE RandomSubset(n, S)
RuleSeqs == {rs \in UNION {[1..n -> Rules] : n \in 1..MaxChanges} : WellFormedSeq(rs)}
RECURSIVE Mids(_, _, _)
\* files seen by change 1..n (as long as the steps succeed)
Mids(f, rs, i) == IF i > Len(rs) THEN <<>> ELSE <<f>> \o Mids(RunOne(f, rs[i]).file, rs, i + 1)
Without(rs, j) == [i \in 1..(Len(rs) - 1) |-> IF i < j THEN rs[i] ELSE rs[i + 1]]
Class(f, rs) ==
  LET m == Mids(f, rs, 1) IN
  IF ~Chain(f, rs).ok THEN "fails"
  \* the same change given twice, and giving it the second time matters
  ELSE IF \E i, j \in 1..Len(rs) : i < j /\ rs[i] = rs[j] /\ Chain(f, Without(rs, j)) # Chain(f, rs) THEN "repeat"
  ELSE IF \E i \in 2..Len(rs) : Matches(m[i], rs[i]) /\ ~Matches(f, rs[i]) THEN "dependent"
  ELSE IF \E i \in 2..Len(rs) : ~Matches(m[i], rs[i]) /\ Matches(f, rs[i]) THEN "removed"
  ELSE "plain"
All == {x \in {<<f, rs>> : f \in Pick(NFiles, Files), rs \in Pick(NSeqs, RuleSeqs)} : WellFormedRun(x[1], x[2])}
Mk(kind, f, g) == [t |-> kind, from |-> f, to |-> g, guard |-> "", newpkg |-> ""]
W(t) == Call("w", <<t>>)
Inner ==
  \* f(w(f(v, 1)), w(g(v2))): '-f(x, 1)' '+g(x)' turns the inner call into g(v); then the outer call is an
  \* instance of '-f(y, y)' exactly when v = v2
  {<<[pkg |-> "p", body |-> <<Call(f, <<W(Call(f, <<v, Lit(1)>>)), W(Call(g, <<v2>>))>>)>>], <<Mk("lit2", f, g), Mk("dup", f, "z")>>>> :
      f \in Atoms, g \in Atoms, v \in Leaves, v2 \in Leaves}
  \* ... mirrored: the rewritten call is the SECOND argument, so the repeated metavariable is bound by code of the
  \* original file (resolved names) and compared with code that the first change produced
  \cup {<<[pkg |-> "p", body |-> <<Call(f, <<W(Call(g, <<v2>>)), W(Call(f, <<v, Lit(1)>>))>>)>>], <<Mk("lit2", f, g), Mk("dup", f, "z")>>>> :
      f \in Atoms, g \in Atoms, v \in Leaves, v2 \in Leaves}
  \cup {<<[pkg |-> "q", body |-> <<Call(f, <<W(Call("z", <<v2>>)), W(Call(g, <<v>>))>>), Call(g, <<Lit(2)>>)>>], <<Mk("ren", g, "z"), Mk("dup", f, g)>>>> :
      f \in Atoms, g \in Atoms, v \in Leaves, v2 \in Leaves}
  \* f(w(g(v)), w(z(v2))): renaming g to z inside makes the two arguments the same code
  \cup {<<[pkg |-> "q", body |-> <<Call(f, <<W(Call(g, <<v>>)), W(Call("z", <<v2>>))>>), Call(g, <<Lit(2)>>)>>], <<Mk("ren", g, "z"), Mk("dup", f, g)>>>> :
      f \in Atoms, g \in Atoms, v \in Leaves, v2 \in Leaves}
  \* ... and a third change that binds what the second produced
  \cup {<<[pkg |-> "p", body |-> <<Call(f, <<W(Call(f, <<v, Lit(1)>>)), W(Call(g, <<v>>))>>)>>], <<Mk("lit2", f, g), Mk("dup", f, g), Mk("ren", g, "z")>>>> :
      f \in Atoms, g \in Atoms, v \in Leaves}
Rec(x) == [pkg |-> x[1].pkg, body |-> x[1].body, rules |-> x[2], class |-> Class(x[1], x[2])]
InnerRec(x) == [pkg |-> x[1].pkg, body |-> x[1].body, rules |-> x[2], class |-> "inner"]
Emit == ndJsonSerialize(OutFile, SetToSeq(UNION {{Rec(x) : x \in Pick(PerClass, {y \in All : Class(y[1], y[2]) = c})} :
                                                    c \in {"dependent", "removed", "fails", "plain", "repeat"}}
                                          \cup {InnerRec(x) : x \in Pick(PerClass, {y \in Inner : WellFormedRun(y[1], y[2])})}))
VARIABLE emitted
EmitInit == /\ emitted = Emit /\ file0 = [pkg |-> "p", body |-> <<>>] /\ rules = <<>> /\ cur = file0 /\ k = 1 /\ st = "done" /\ log = <<>>
EmitSpec == EmitInit /\ [][UNCHANGED <<emitted, vars>>]_<<emitted, vars>>
====
