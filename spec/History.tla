---- MODULE History ----
(***************************************************************************)
(* C09: the changes of a patch file, and the patch files of a command      *)
(* line, are applied strictly in order, each to what the previous left.    *)
(*                                                                         *)
(* Abstract file: [pkg, body] - a package name and the sequence of the     *)
(* calls that make up the code, one TERM per statement.  A term is a record*)
(* [f, n, args]: a call of f with argument terms, or a leaf - the integer  *)
(* literal n (f = "lit"; n = 0 stands for the identifier x) or another     *)
(* identifier (f = "id:<name>").  Terms nest, so a change can rewrite code *)
(* INSIDE a place that a later change compares or binds.                   *)
(* A change (rule) is                                                      *)
(*   [t |-> "ren", from, to, guard, newpkg]   '-from(x)' '+to(x)' with an  *)
(*        expression metavariable x: rename every one-argument call of     *)
(*        `from`, keeping its argument; guard: package clause on a context *)
(*        line ("" = none); newpkg: '-package guard' / '+package newpkg'   *)
(*   [t |-> "split", from, to, ...]   '-from(x, y)' '+pair(to(x), to(y))': *)
(*        every two-argument call of `from` becomes a call of pair with    *)
(*        two one-argument calls of `to` (code that a later change has to  *)
(*        bind site by site, below the top of the statement)               *)
(*   [t |-> "dup", from, to, ...]     '-from(y, y)' '+to(y)': two-argument *)
(*        calls of `from` whose arguments are the same code                *)
(*   [t |-> "lit2", from, to, ...]    '-from(x, 1)' '+to(x)': two-argument *)
(*        calls of `from` whose second argument is the literal 1           *)
(*   [t |-> "renlit", from, to, ...]  '-from(x)' '+to(x)' with x undeclared: *)
(*        only calls whose argument is the identifier x (literal 0)        *)
(*   [t |-> "sren", from, to, ...]    '-defer from(x)' '+defer to(x)': a   *)
(*        STATEMENT pattern, it sees only the calls that are statements    *)
(*   [t |-> "fail", from, guard, ...]         matches calls of `from`, but *)
(*        its replacement cannot be built (the step fails)                 *)
(* Expression patterns apply at every depth.  The outermost instance is    *)
(* rewritten and what it bound is reproduced as it is; sequences in which  *)
(* an instance lies inside an instance of the same change are outside the  *)
(* universe (WellFormedRun) - what happens to the inner one is C01's and   *)
(* C03's business, not the order of changes.                               *)
(*                                                                         *)
(* P-layer: Chain - one run per change, each starting from the file the    *)
(* previous run produced; if a step fails the result is the failure and    *)
(* the original file.                                                      *)
(* I-layer: the loop of patchRunner.Apply (main.go) / File.Apply           *)
(* (patch/gopatch.go): one action per change, matching against the tree    *)
(* that the previous change mutated in place.  The command returns at the  *)
(* first failing replacement, the library goes on and reports at the end.  *)
(***************************************************************************)
EXTENDS Naturals, Sequences, FiniteSets, TLC, SequencesExt

CONSTANTS Atoms,       \* call names that occur in files
          MaxChanges, MaxLen,
          Pkgs,        \* package names
          Lib,         \* "1": model the library loop (continues after a failing step)
          Nested       \* "1": the universe of the design check has calls nested in calls

Lit(n) == [f |-> "lit", n |-> n, args |-> <<>>]
Call(a, as) == [f |-> a, n |-> 0, args |-> as]
IsLeaf(t) == Len(t.args) = 0     \* (a call without arguments has nothing a change of this universe could bind)

Targets == Atoms \cup {"z"}
ExprRule(k) == {[t |-> k, from |-> f, to |-> x, guard |-> "", newpkg |-> ""] : f \in Atoms, x \in Targets}
Rules ==
  {[t |-> "ren", from |-> f, to |-> x, guard |-> g, newpkg |-> n] :
      f \in Atoms, x \in Targets, g \in Pkgs \cup {""}, n \in Pkgs \cup {""}}
  \cup {[t |-> "fail", from |-> f, to |-> f, guard |-> g, newpkg |-> ""] : f \in Atoms, g \in Pkgs \cup {""}}
  \cup ExprRule("split") \cup ExprRule("dup") \cup ExprRule("lit2") \cup ExprRule("renlit")
  \* the same rename written as a STATEMENT pattern ('-defer from(x)' '+defer to(x)': the file's calls are
  \* deferred calls then); statement patterns go through the elision machinery for statement lists
  \cup ExprRule("sren")
WellFormedRule(r) == /\ (r.t \in {"ren", "renlit", "sren", "dup", "lit2"} => r.from # r.to)
                     /\ (r.newpkg # "" => (r.guard # "" /\ r.newpkg # r.guard))   \* a rename is written '-package g' '+package n'
WellFormedSeq(rs) == \A i \in 1..Len(rs) : WellFormedRule(rs[i])

\* the bounded universe of the design check: statements are calls of one or two leaves and, when Nested = "1",
\* calls of one call of a leaf
Leaves == {Lit(0), Lit(1), Lit(2)}
FlatCalls == {Call(a, <<v>>) : a \in Atoms, v \in Leaves} \cup {Call(a, <<Lit(1), v>>) : a \in Atoms, v \in {Lit(1), Lit(2)}}
Calls == FlatCalls \cup (IF Nested = "1" THEN {Call(a, <<Call(b, <<Lit(1)>>)>>) : a, b \in Atoms} ELSE {})
Files == [pkg : Pkgs, body : UNION {[1..n -> Calls] : n \in 1..MaxLen}]

SeqToSet(s) == {s[i] : i \in 1..Len(s)}

\* ---------------------------------------------------------------- one step --
Arity(r) == IF r.t \in {"split", "dup", "lit2"} THEN 2 ELSE 1
Hit(c, r) == /\ c.f = r.from /\ Len(c.args) = Arity(r)
             /\ (r.t = "renlit" => c.args = <<Lit(0)>>)
             /\ (r.t = "dup" => c.args[1] = c.args[2])
             /\ (r.t = "lit2" => c.args[2] = Lit(1))
Build(c, r) == IF r.t = "split" THEN Call("pair", <<Call(r.to, <<c.args[1]>>), Call(r.to, <<c.args[2]>>)>>)
               ELSE IF r.t \in {"dup", "lit2"} THEN Call(r.to, <<c.args[1]>>)
               ELSE Call(r.to, c.args)
RECURSIVE HasInstance(_, _)
HasInstance(t, r) == ~IsLeaf(t) /\ (Hit(t, r) \/ \E i \in 1..Len(t.args) : HasInstance(t.args[i], r))
RECURSIVE NestedInstance(_, _)
NestedInstance(t, r) == /\ ~IsLeaf(t)
                        /\ IF Hit(t, r) THEN \E i \in 1..Len(t.args) : HasInstance(t.args[i], r)
                           ELSE \E i \in 1..Len(t.args) : NestedInstance(t.args[i], r)
RECURSIVE RewriteTerm(_, _)
RewriteTerm(t, r) == IF IsLeaf(t) THEN t
                     ELSE IF Hit(t, r) THEN Build(t, r)
                     ELSE [t EXCEPT !.args = [i \in 1..Len(t.args) |-> RewriteTerm(t.args[i], r)]]
\* a statement pattern sees the statements only, an expression pattern every call
Sees(c, r) == IF r.t = "sren" THEN ~IsLeaf(c) /\ Hit(c, r) ELSE HasInstance(c, r)
Matches(file, r) == (r.guard = "" \/ r.guard = file.pkg) /\ \E i \in 1..Len(file.body) : Sees(file.body[i], r)
\* a statement pattern rewrites the first instance in a block (all calls of a file are in one block)
FirstHit(b, r) == CHOOSE i \in 1..Len(b) : Hit(b[i], r) /\ \A j \in 1..(i - 1) : ~Hit(b[j], r)
Rewrite(file, r) ==
  [pkg |-> IF r.newpkg = "" THEN file.pkg ELSE r.newpkg,
   body |-> IF r.t = "sren"
            THEN [i \in 1..Len(file.body) |-> IF i = FirstHit(file.body, r) THEN Call(r.to, file.body[i].args) ELSE file.body[i]]
            ELSE [i \in 1..Len(file.body) |-> RewriteTerm(file.body[i], r)]]
\* no instance of the change inside another instance of it (see the head comment)
Flat(file, r) == r.t = "sren" \/ \A i \in 1..Len(file.body) : ~NestedInstance(file.body[i], r)

\* ---------------------------------------------------------------- P-layer --
\* one run per change: [ok, file]
RunOne(file, r) == IF ~Matches(file, r) THEN [ok |-> TRUE, file |-> file]
                   ELSE IF r.t = "fail" THEN [ok |-> FALSE, file |-> file]
                   ELSE [ok |-> TRUE, file |-> Rewrite(file, r)]
RECURSIVE ChainFrom(_, _, _)
ChainFrom(file, rs, k) ==
  IF k > Len(rs) THEN [ok |-> TRUE, file |-> file]
  ELSE LET r == RunOne(file, rs[k]) IN
       IF r.ok THEN ChainFrom(r.file, rs, k + 1) ELSE [ok |-> FALSE, file |-> file]
\* the combined run must give: the chain's final file, or (a step failed) the failure and the original file
Chain(file, rs) == LET c == ChainFrom(file, rs, 1) IN IF c.ok THEN c ELSE [ok |-> FALSE, file |-> file]

\* every change of the sequence meets a file without nested instances of itself
RECURSIVE WellFormedRunFrom(_, _, _)
WellFormedRunFrom(ff, rr, j) ==
  IF j > Len(rr) THEN TRUE
  ELSE Flat(ff, rr[j]) /\ (IF RunOne(ff, rr[j]).ok THEN WellFormedRunFrom(RunOne(ff, rr[j]).file, rr, j + 1) ELSE TRUE)
WellFormedRun(ff, rr) == WellFormedSeq(rr) /\ WellFormedRunFrom(ff, rr, 1)

\* ---------------------------------------------------------------- I-layer --
VARIABLES file0, rules, cur, k, st, log
vars == <<file0, rules, cur, k, st, log>>

Init == /\ file0 \in Files
        /\ rules \in {rs \in UNION {[1..n -> Rules] : n \in 1..MaxChanges} : WellFormedSeq(rs)}
        /\ cur = file0 /\ k = 1 /\ st = "run" /\ log = <<>>
        /\ WellFormedRun(file0, rules)

\* c.Match(f) on the current tree; then c.Replace
ApplyChange ==
  /\ st \in {"run", "erred"} /\ k <= Len(rules)
  /\ LET r == rules[k]
         m == Matches(cur, r)
     IN /\ log' = Append(log, [k |-> k, matched |-> m])
        /\ IF ~m THEN /\ cur' = cur /\ st' = st /\ k' = k + 1
           ELSE IF r.t = "fail"
                THEN /\ cur' = cur
                     /\ IF Lib = "1" THEN st' = "erred" /\ k' = k + 1       \* errors.Join, continue
                        ELSE st' = "failed" /\ k' = k                       \* return nil, comments, false
                ELSE /\ cur' = Rewrite(cur, r) /\ st' = st /\ k' = k + 1
  /\ UNCHANGED <<file0, rules>>
Finish == /\ st \in {"run", "erred"} /\ k > Len(rules)
          /\ st' = IF st = "erred" THEN "failed" ELSE "done"
          /\ UNCHANGED <<file0, rules, cur, k, log>>
Next == ApplyChange \/ Finish
Spec == Init /\ [][Next]_vars /\ WF_vars(Next)

\* what the run delivers
Result == IF st = "done" THEN [ok |-> TRUE, file |-> cur] ELSE [ok |-> FALSE, file |-> file0]
IRun(f, rs) == \* functional form of the same loop (used by the trace spec)
  LET RECURSIVE go(_, _, _, _)
      go(c, i, erred, lg) ==
        IF i > Len(rs) THEN [ok |-> ~erred, file |-> IF erred THEN f ELSE c, log |-> lg]
        ELSE LET m == Matches(c, rs[i])
                 lg2 == Append(lg, [k |-> i, matched |-> m])
             IN IF ~m THEN go(c, i + 1, erred, lg2)
                ELSE IF rs[i].t = "fail" THEN (IF Lib = "1" THEN go(c, i + 1, TRUE, lg2) ELSE [ok |-> FALSE, file |-> f, log |-> lg2])
                ELSE go(Rewrite(c, rs[i]), i + 1, erred, lg2)
  IN go(f, 1, FALSE, <<>>)

\* ---------------------------------------------------------------- checked --
InOrderEqualsChain == st \in {"done", "failed"} => Result = Chain(file0, rules)
\* a change that does not match does not disturb anything
NoMatchNoOp == [][(ApplyChange /\ ~Matches(cur, rules[k])) => cur' = cur]_vars
\* changes are taken in the given order, each exactly once
StrictOrder == [][ApplyChange => (log' = Append(log, [k |-> k, matched |-> Matches(cur, rules[k])]) /\ (k' = k + 1 \/ st' = "failed"))]_vars
FunctionalAgrees == st \in {"done", "failed"} => (IRun(file0, rules).ok = Result.ok /\ IRun(file0, rules).file = Result.file /\ IRun(file0, rules).log = log)
Terminates == <>(st \in {"done", "failed"})
====
