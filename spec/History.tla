---- MODULE History ----
(***************************************************************************)
(* C09: the changes of a patch file, and the patch files of a command      *)
(* line, are applied strictly in order, each to what the previous left.    *)
(*                                                                         *)
(* Abstract file: [pkg, body] - a package name and the sequence of calls   *)
(* that make up the code; a call is [f, args] with one or two literal      *)
(* arguments.  A change (rule) is                                          *)
(*   [t |-> "ren", from, to, guard, newpkg]   '-from(x)' '+to(x)' with an  *)
(*        expression metavariable x: rename every one-argument call of     *)
(*        `from`, keeping its argument; guard: package clause on a context *)
(*        line ("" = none); newpkg: '-package guard' / '+package newpkg'   *)
(*   [t |-> "split", from, to, ...]   '-from(x, y)' '+pair(to(x), to(y))': *)
(*        every two-argument call of `from` becomes two one-argument calls *)
(*        of `to` (code that a later change has to bind site by site)      *)
(*   [t |-> "renlit", from, to, ...]  '-from(x)' '+to(x)' with x undeclared: *)
(*        only calls whose argument is the identifier x (argument 0)       *)
(*   [t |-> "fail", from, guard, ...]         matches calls of `from`, but *)
(*        its replacement cannot be built (the step fails)                 *)
(*                                                                         *)
(* P-layer: Chain - one run per change, each starting from the file the    *)
(* previous run produced; if a step fails the result is the failure and    *)
(* the original file.                                                      *)
(* I-layer: the loop of patchRunner.Apply (main.go) / File.Apply           *)
(* (patch/gopatch.go): one action per change, matching against the tree    *)
(* that the previous change mutated in place.  The command returns at the  *)
(* first failing replacement, the library goes on and reports at the end.  *)
(***************************************************************************)
EXTENDS Naturals, Sequences, FiniteSets, TLC, SequencesExt

CONSTANTS Atoms,       \* call names that occur in files
          MaxChanges, MaxLen,
          Pkgs,        \* package names
          Lib          \* "1": model the library loop (continues after a failing step)

Targets == Atoms \cup {"z"}
Rules ==
  {[t |-> "ren", from |-> f, to |-> x, guard |-> g, newpkg |-> n] :
      f \in Atoms, x \in Targets, g \in Pkgs \cup {""}, n \in Pkgs \cup {""}}
  \cup {[t |-> "fail", from |-> f, to |-> f, guard |-> g, newpkg |-> ""] : f \in Atoms, g \in Pkgs \cup {""}}
  \cup {[t |-> "split", from |-> f, to |-> x, guard |-> "", newpkg |-> ""] : f \in Atoms, x \in Targets}
  \* the same rename written as a STATEMENT pattern ('-defer from(x)' '+defer to(x)': the file's calls are
  \* deferred calls then); statement patterns go through the elision machinery for statement lists
  \cup {[t |-> "sren", from |-> f, to |-> x, guard |-> "", newpkg |-> ""] : f \in Atoms, x \in Targets}
  \* '-from(x)' '+to(x)' WITHOUT declaring x: x is the plain identifier x, so only calls whose
  \* argument is that identifier are renamed (argument 0 stands for the identifier x)
  \cup {[t |-> "renlit", from |-> f, to |-> x, guard |-> "", newpkg |-> ""] : f \in Atoms, x \in Targets}
WellFormedRule(r) == /\ (r.t \in {"ren", "renlit", "sren"} => r.from # r.to)
                     /\ (r.newpkg # "" => (r.guard # "" /\ r.newpkg # r.guard))   \* a rename is written '-package g' '+package n'
Calls == {[f |-> a, args |-> <<v>>] : a \in Atoms, v \in {0, 1, 2}} \cup {[f |-> a, args |-> <<1, 2>>] : a \in Atoms}
\* a statement-level rename only sees calls that are statements themselves: the calls that `split`
\* nests inside pair(...) are not, so the two kinds of rule are not mixed in one sequence
WellFormedSeq(rs) == /\ \A i \in 1..Len(rs) : WellFormedRule(rs[i])
                     /\ ~((\E i \in 1..Len(rs) : rs[i].t = "sren") /\ (\E i \in 1..Len(rs) : rs[i].t = "split"))
Files == [pkg : Pkgs, body : UNION {[1..n -> Calls] : n \in 1..MaxLen}]

SeqToSet(s) == {s[i] : i \in 1..Len(s)}

\* ---------------------------------------------------------------- one step --
Arity(r) == IF r.t = "split" THEN 2 ELSE 1
Hit(c, r) == c.f = r.from /\ Len(c.args) = Arity(r) /\ (r.t = "renlit" => c.args = <<0>>)
Matches(file, r) == (r.guard = "" \/ r.guard = file.pkg) /\ \E i \in 1..Len(file.body) : Hit(file.body[i], r)
RECURSIVE RewriteBody(_, _, _)
RewriteBody(b, r, i) ==
  IF i > Len(b) THEN <<>>
  ELSE (IF ~Hit(b[i], r) THEN <<b[i]>>
        ELSE IF r.t = "split" THEN <<[f |-> r.to, args |-> <<b[i].args[1]>>], [f |-> r.to, args |-> <<b[i].args[2]>>]>>
        ELSE <<[f |-> r.to, args |-> b[i].args]>>) \o RewriteBody(b, r, i + 1)
\* a statement pattern rewrites the first instance in a block (all calls of a file are in one block)
FirstHit(b, r) == CHOOSE i \in 1..Len(b) : Hit(b[i], r) /\ \A j \in 1..(i - 1) : ~Hit(b[j], r)
Rewrite(file, r) ==
  [pkg |-> IF r.newpkg = "" THEN file.pkg ELSE r.newpkg,
   body |-> IF r.t = "sren"
            THEN [i \in 1..Len(file.body) |-> IF i = FirstHit(file.body, r) THEN [f |-> r.to, args |-> file.body[i].args] ELSE file.body[i]]
            ELSE RewriteBody(file.body, r, 1)]

\* ---------------------------------------------------------------- P-layer --
\* one run per change: [ok, file]
RunOne(file, r) == IF ~Matches(file, r) THEN [ok |-> TRUE, file |-> file]
                   ELSE IF r.t = "fail" THEN [ok |-> FALSE, file |-> file]
                   ELSE [ok |-> TRUE, file |-> Rewrite(file, r)]
RECURSIVE ChainFrom(_, _, _)
ChainFrom(file, rs, k) ==
  IF k > Len(rs) THEN [ok |-> TRUE, file |-> file]
  ELSE LET r == RunOne(file, rs[k]) IN
       IF r.ok THEN ChainFrom(r.file, rs, k + 1) ELSE [ok |-> FALSE, file |-> file]
\* the combined run must give: the chain's final file, or (a step failed) the failure and the original file
Chain(file, rs) == LET c == ChainFrom(file, rs, 1) IN IF c.ok THEN c ELSE [ok |-> FALSE, file |-> file]

\* ---------------------------------------------------------------- I-layer --
VARIABLES file0, rules, cur, k, st, log
vars == <<file0, rules, cur, k, st, log>>

Init == /\ file0 \in Files
        /\ rules \in {rs \in UNION {[1..n -> Rules] : n \in 1..MaxChanges} : WellFormedSeq(rs)}
        /\ cur = file0 /\ k = 1 /\ st = "run" /\ log = <<>>

\* c.Match(f) on the current tree; then c.Replace
ApplyChange ==
  /\ st \in {"run", "erred"} /\ k <= Len(rules)
  /\ LET r == rules[k]
         m == Matches(cur, r)
     IN /\ log' = Append(log, [k |-> k, matched |-> m])
        /\ IF ~m THEN /\ cur' = cur /\ st' = st /\ k' = k + 1
           ELSE IF r.t = "fail"
                THEN /\ cur' = cur
                     /\ IF Lib = "1" THEN st' = "erred" /\ k' = k + 1       \* errors.Join, continue
                        ELSE st' = "failed" /\ k' = k                       \* return nil, comments, false
                ELSE /\ cur' = Rewrite(cur, r) /\ st' = st /\ k' = k + 1
  /\ UNCHANGED <<file0, rules>>
Finish == /\ st \in {"run", "erred"} /\ k > Len(rules)
          /\ st' = IF st = "erred" THEN "failed" ELSE "done"
          /\ UNCHANGED <<file0, rules, cur, k, log>>
Next == ApplyChange \/ Finish
Spec == Init /\ [][Next]_vars /\ WF_vars(Next)

\* what the run delivers
Result == IF st = "done" THEN [ok |-> TRUE, file |-> cur] ELSE [ok |-> FALSE, file |-> file0]
IRun(f, rs) == \* functional form of the same loop (used by the trace spec)
  LET RECURSIVE go(_, _, _, _)
      go(c, i, erred, lg) ==
        IF i > Len(rs) THEN [ok |-> ~erred, file |-> IF erred THEN f ELSE c, log |-> lg]
        ELSE LET m == Matches(c, rs[i])
                 lg2 == Append(lg, [k |-> i, matched |-> m])
             IN IF ~m THEN go(c, i + 1, erred, lg2)
                ELSE IF rs[i].t = "fail" THEN (IF Lib = "1" THEN go(c, i + 1, TRUE, lg2) ELSE [ok |-> FALSE, file |-> f, log |-> lg2])
                ELSE go(Rewrite(c, rs[i]), i + 1, erred, lg2)
  IN go(f, 1, FALSE, <<>>)

\* ---------------------------------------------------------------- checked --
InOrderEqualsChain == st \in {"done", "failed"} => Result = Chain(file0, rules)
\* a change that does not match does not disturb anything
NoMatchNoOp == [][(ApplyChange /\ ~Matches(cur, rules[k])) => cur' = cur]_vars
\* changes are taken in the given order, each exactly once
StrictOrder == [][ApplyChange => (log' = Append(log, [k |-> k, matched |-> Matches(cur, rules[k])]) /\ (k' = k + 1 \/ st' = "failed"))]_vars
FunctionalAgrees == st \in {"done", "failed"} => (IRun(file0, rules).ok = Result.ok /\ IRun(file0, rules).file = Result.file /\ IRun(file0, rules).log = log)
Terminates == <>(st \in {"done", "failed"})
====
