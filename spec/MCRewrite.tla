---- MODULE MCRewrite ----
(***************************************************************************)
(* Design check  I => P  for the rewrite family over the bounded universes *)
(* of RewriteUniverse.  One behaviour = one (P, Q) pair: the machine scans *)
(* the subjects one per step (the per-site loop of FileMatcher.Match /     *)
(* FileReplacer.Replace; sites are independent), computing what the        *)
(* engine would produce (Pattern!IRewrite) and judging it with the         *)
(* reference semantics (Pattern!Judge).                                    *)
(***************************************************************************)
EXTENDS RewriteUniverse

\* -------------------------------------------------------------- machine --
VARIABLES pi, si
vars == <<pi, si>>

Init == pi \in 1..Len(PairSeq) /\ si = 1
Scan == si <= Len(SubjSeq) /\ si' = si + 1 /\ pi' = pi
Next == Scan
Spec == Init /\ [][Next]_vars

P == PairSeq[pi][1]
Q == PairSeq[pi][2]
S == SubjSeq[si]

IOut == IRewrite(P, Q, S, RootTy)
Fails == Judge(P, Q, S, IOut, RootTy, <<>>)

KnownFail(f) ==
  \/ (f.c = "missed" /\ BareNestedBlock(P, S, f.at))

\* I => P: whatever the engine-shaped machine produces is allowed by the
\* reference semantics, except for the listed known findings
DesignOK == si <= Len(SubjSeq) => \A f \in Fails : KnownFail(f)

\* error-trace view: details only for the violating state
Show == IF DesignOK THEN [pi |-> pi, si |-> si]
        ELSE [pi |-> pi, si |-> si, P |-> P, Q |-> Q, S |-> S, IOut |-> IOut, fails |-> Fails]

\* used with -coverage / evidence: number of subjects on which P matches
MatchesSomething == si <= Len(SubjSeq) => TRUE
====
