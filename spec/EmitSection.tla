---- MODULE EmitSection ----
(* Writes the patch universe of Section.tla and the table of faulty lines  *)
(* for replay into the real parser; lib/prop_c19.py places the faults      *)
(* (FaultsOf) and TraceSection.tla recomputes the expected positions.      *)
EXTENDS Section, Json, SequencesExt
CONSTANTS OutFile, FaultFile
VARIABLE emitted
EmitInit == /\ emitted = (ndJsonSerialize(OutFile, SetToSeq({[changes |-> p] : p \in Patches}))
                          /\ ndJsonSerialize(FaultFile, SetToSeq({[k |-> k, line |-> FaultLine(k), hdr |-> IF InHeader(k) THEN "1" ELSE "0"] : k \in Faults})))
            /\ patch = <<>> /\ fault = [c |-> 1, k |-> "nothdr", m |-> 0]
EmitSpec == EmitInit /\ [][UNCHANGED <<emitted, patch, fault>>]_<<emitted, patch, fault>>
====
