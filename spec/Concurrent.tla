---- MODULE Concurrent ----
(***************************************************************************)
(* C14 (library half): several File.Apply calls on ONE parsed patch.       *)
(*                                                                         *)
(* A call passes a fixed sequence of scheduling points (the gates of       *)
(* patch/gopatch.go, build tag verif): parse, then per change match        *)
(* [replace [diff]], then format and imports.  Which points a call passes  *)
(* is a function of its source kind and of the patch (two changes):        *)
(*   "both"    both changes match        "first"  only the first matches   *)
(*   "second"  only the second matches   "none"   nothing matches          *)
(*   "bad"     the source does not parse "rerr"   the first change matches *)
(*             but its replacement fails (the second is still tried)       *)
(* Shared between calls: the token.FileSet (AddFile under a mutex: a call  *)
(* gets the next free base offset) and the compiled program (read only).   *)
(* A call's own state: its tree, its match data, its result.               *)
(*                                                                         *)
(* The model is the scheduler's view: one action = one call advancing from *)
(* a gate to its next gate.  TLC enumerates every interleaving; each is    *)
(* replayed on real goroutines through the gates (B3) and the recorded     *)
(* passages, results and program hashes are validated against this module  *)
(* (TraceConcurrent.tla).                                                  *)
(***************************************************************************)
EXTENDS Naturals, Sequences, FiniteSets, TLC, SequencesExt

CONSTANTS K1, K2, K3  \* source kind of call 1, 2, 3 ("" = no such call)


Points(kind) ==
  CASE kind = "bad"    -> <<"parse">>
    [] kind = "none"   -> <<"parse", "match", "match">>
    [] kind = "first"  -> <<"parse", "match", "replace", "diff", "match", "format", "imports">>
    [] kind = "second" -> <<"parse", "match", "match", "replace", "diff", "format", "imports">>
    [] kind = "both"   -> <<"parse", "match", "replace", "diff", "match", "replace", "diff", "format", "imports">>
    [] kind = "rerr"   -> <<"parse", "match", "replace", "match">>

\* the result a call delivers when it runs alone
Solo(kind) == CASE kind = "bad" -> "error:parse" [] kind = "rerr" -> "error:replace" [] kind = "none" -> "input"
                [] OTHER -> "patched:" \o kind

VARIABLES kinds,     \* source kind per call (fixed during a run; a variable so that the trace spec can load runs)
          pc,        \* pc[c]: number of gates call c has passed (0 = not started)
          base,      \* base[c]: FileSet base handed out at the parse step (0 = none yet)
          fsetNext,  \* next free base of the shared FileSet
          res,       \* res[c]: "" while running, then the result
          prog,      \* the compiled program (abstract value; must never change)
          sched      \* history: the sequence of <<call, point>> passages
vars == <<kinds, pc, base, fsetNext, res, prog, sched>>
Calls == 1..Len(kinds)
Kinds == kinds

Init == /\ kinds = SelectSeq(<<K1, K2, K3>>, LAMBDA x : x # "")
        /\ pc = [c \in 1..Len(SelectSeq(<<K1, K2, K3>>, LAMBDA x : x # "")) |-> 0]
        /\ base = [c \in DOMAIN pc |-> 0] /\ fsetNext = 1
        /\ res = [c \in DOMAIN pc |-> ""] /\ prog = "compiled" /\ sched = <<>>

\* call c is released from its current gate and runs to the next one (or to its end)
Step(c) ==
  /\ res[c] = "" /\ pc[c] < Len(Points(Kinds[c]))
  /\ LET p == Points(Kinds[c])[pc[c] + 1] IN
     /\ pc' = [pc EXCEPT ![c] = @ + 1]
     /\ sched' = Append(sched, <<c, p>>)
     /\ IF p = "parse" THEN base' = [base EXCEPT ![c] = fsetNext] /\ fsetNext' = fsetNext + 1   \* AddFile (mutex)
        ELSE UNCHANGED <<base, fsetNext>>
     \* after the last gate the call runs to completion: its result is the one it has alone
     /\ res' = IF pc[c] + 1 = Len(Points(Kinds[c])) THEN [res EXCEPT ![c] = Solo(Kinds[c])] ELSE res
  /\ UNCHANGED <<prog, kinds>>
Next == \E c \in Calls : Step(c)
Spec == Init /\ [][Next]_vars /\ WF_vars(Next)

Done == \A c \in Calls : res[c] # ""
\* -------------------------------------------------------------- properties --
EachAsAlone   == \A c \in Calls : res[c] # "" => res[c] = Solo(Kinds[c])
ProgImmutable == [][prog' = prog]_vars
\* a step of one call leaves every other call's state alone
NonInterference == [][\A c \in Calls : Step(c) => \A o \in Calls \ {c} : pc'[o] = pc[o] /\ base'[o] = base[o] /\ res'[o] = res[o]]_vars
DistinctBases == \A c, o \in Calls : (c # o /\ base[c] # 0 /\ base[o] # 0) => base[c] # base[o]
Terminates == <>Done
====
