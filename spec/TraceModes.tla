---- MODULE TraceModes ----
(***************************************************************************)
(* Relations between the output modes of one (patch, file, flags) case     *)
(* (C12: all modes agree; C07: whatever is emitted parses, and a rewrite   *)
(* that does not parse is reported and nothing is emitted for it).         *)
(*                                                                         *)
(* Each line of TraceFile records the same case run through the real       *)
(* binary in write mode, --print-only and --diff, and through the library  *)
(* API: the bytes each mode produced for the file ("" = nothing), its exit *)
(* status, whether stderr names the file, and go/parser's verdict on each  *)
(* produced content.                                                       *)
(***************************************************************************)
EXTENDS Naturals, Sequences, FiniteSets, TLC, Json, SequencesExt

CONSTANTS TraceFile, OutFile
Trace == ndJsonDeserialize(TraceFile)

VARIABLES l, verdicts
vars == <<l, verdicts>>

Modes == {"w", "p", "d"}      \* write in place, --print-only, --diff (+ apply the diff)

\* r.m[mode] = [out, exit, named, parses, changed]
Ok(r, m)      == r.m[m].exit = 0
Emitted(r, m) == Ok(r, m) /\ r.m[m].changed = "1"

\* C12: same bytes from every mode (and the API when import processing is on)
ModesAgree(r) ==
  /\ \A a, b \in Modes : r.m[a].exit = r.m[b].exit
  /\ (\A a \in Modes : Ok(r, a)) =>
       /\ \A a, b \in Modes : r.m[a].out = r.m[b].out
       /\ (r.useApi = "1" => r.api.err = "" /\ r.api.out = r.m["w"].out)
  /\ (r.useApi = "1" /\ r.api.err # "" => \A a \in Modes : ~Ok(r, a))

\* C07: emitted content parses ...
EmittedParses(r) ==
  /\ \A a \in Modes : Emitted(r, a) => r.m[a].parses = "1"
  /\ (r.useApi = "1" /\ r.api.err = "" => r.api.parses = "1")
\* ... and a failing rewrite is reported, names the file, and emits nothing
FailureReported(r) ==
  \A a \in Modes : ~Ok(r, a) => r.m[a].named = "1" /\ r.m[a].changed = "0"

\* C06 (library): when no mode changed anything, the API hands back the input bytes themselves
UnmatchedApiIdentity(r) ==
  ((\A a \in Modes : Ok(r, a) /\ r.m[a].changed = "0") /\ r.useApi = "1") => (r.api.err = "" /\ r.api.same = "1")

Verdict(r) ==
  [id |-> r.id,
   viol |-> SetToSeq((IF ModesAgree(r) THEN {} ELSE {"ModesAgree"})
                     \cup (IF UnmatchedApiIdentity(r) THEN {} ELSE {"UnmatchedApiIdentity"})
                     \cup (IF EmittedParses(r) THEN {} ELSE {"EmittedParses"})
                     \cup (IF FailureReported(r) THEN {} ELSE {"FailureReported"}))]

Init == l = 1 /\ verdicts = <<>>
Next == l <= Len(Trace) /\ l' = l + 1 /\ verdicts' = Append(verdicts, Verdict(Trace[l]))
Spec == Init /\ [][Next]_vars
Flush == (l = Len(Trace) + 1) => ndJsonSerialize(OutFile, verdicts)
Accepted == TLCGet("stats").diameter - 1 = Len(Trace)
====
