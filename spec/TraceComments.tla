---- MODULE TraceComments ----
(* Judges recorded executions (C17): per record what the observer read off  *)
(* the gofmt'ed input and the output (see Comments.tla, P-layer).           *)
EXTENDS Comments, Json
CONSTANTS TraceFile, OutFile
Trace == ndJsonDeserialize(TraceFile)
VARIABLES l, verdicts
TraceInit == l = 1 /\ verdicts = <<>>
TraceNext == /\ l <= Len(Trace) /\ l' = l + 1
             /\ verdicts' = Append(verdicts, [id |-> Trace[l].id, viol |-> SetToSeq(Violations(Trace[l]))])
TraceSpec == TraceInit /\ [][TraceNext]_<<l, verdicts>>
Flush == (l = Len(Trace) + 1) => ndJsonSerialize(OutFile, verdicts)
Accepted == TLCGet("stats").diameter - 1 = Len(Trace)
====
