---- MODULE Discover ----
(***************************************************************************)
(* C15: target discovery (main.go: findGoFiles, findFiles).                *)
(*                                                                         *)
(* A tree is a set of paths (sequences of names) below a root directory;   *)
(* in the bounded universes the kind of an entry is determined by its      *)
(* name.  An argument names the root or an entry, relative or absolute,    *)
(* optionally with a trailing "...".                                       *)
(*                                                                         *)
(* P-layer (RefSet): every regular *.go file named directly or lying       *)
(* beneath a named directory, except files reached through a directory     *)
(* named vendor / testdata / .x / _x; nothing else; once; fixed order.     *)
(* I-layer (IWalk, IFiles): filepath.Walk with the pruning callback, then  *)
(* de-duplication by absolute path and sorting.                            *)
(***************************************************************************)
EXTENDS Naturals, Sequences, FiniteSets, TLC, SequencesExt, FiniteSetsExt

CONSTANTS Names,       \* names that may occur in a tree
          MaxEntries,  \* entries per directory
          MaxArgs,     \* arguments per run
          CwdMode,     \* how the command knows its working directory: "real" (symbolic links resolved, the code since
                       \* 222f483) | "logical" (as it was entered - $PWD - the code before)
          KeyMode      \* how the command tells files apart: "real" (the path with symbolic links resolved,
                       \* the code since c1be75a) | "spelled" (the cleaned path as spelled, the code before)

\* kind and attributes of a name (fixed alphabet; see lib/prop_c15.py)
Kind(n) == CASE n \in {"a.go", "b.go", "c.txt"} -> "file"
             [] n \in {"vendor", "testdata", ".h", "_u", "sub", "d.go", "_g.go"} -> "dir"
             [] n = "l.go" -> "linkfile"      \* symlink to a regular .go file outside the tree
             [] n = "ld" -> "linkdir"         \* symlink to a directory with a .go file outside the tree
IsGoName(n)  == n \in {"a.go", "b.go", "d.go", "l.go", "_g.go"}
Excluded(n)  == n \in {"vendor", "testdata", ".h", "_u", "_g.go"}      \* ("_g.go": an excluded directory named like a Go file)
DirNames     == {n \in Names : Kind(n) = "dir"}
\* byte order of the names (no name is a prefix of another, so comparing
\* paths component-wise is comparing the path strings)
Rank(n) == CASE n = ".h" -> 1 [] n = "_g.go" -> 2 [] n = "_u" -> 3 [] n = "a.go" -> 4 [] n = "b.go" -> 5 [] n = "c.txt" -> 6
             [] n = "d.go" -> 7 [] n = "l.go" -> 8 [] n = "ld" -> 9 [] n = "sub" -> 10 [] n = "testdata" -> 11
             [] n = "vendor" -> 12

Small(S) == {T \in SUBSET S : Cardinality(T) <= MaxEntries}
\* trees of depth 2: top-level entries, and entries of each top-level directory
Trees == {t \in [top : Small(Names), kids : [DirNames -> Small(Names)]] :
            \A d \in DirNames : d \notin t.top => t.kids[d] = {}}
Paths(t) == {<<n>> : n \in t.top} \cup UNION {{<<d, c>> : c \in t.kids[d]} : d \in t.top \cap DirNames}
KindOf(p) == IF p = <<>> THEN "dir" ELSE Kind(Last(p))

\* arguments: [path, abs, dots, via]; via = "l": the argument reaches its target through a symbolic link to the
\* tree that lies next to it (another spelling of the same file or directory; the link itself is never the target)
ArgsOf(t) == {a \in [path : Paths(t) \cup {<<>>}, abs : BOOLEAN, dots : BOOLEAN, via : {"w", "l"}] :
                /\ (a.dots => KindOf(a.path) = "dir")
                /\ (a.via = "l" => a.path # <<>>)}
ArgLists(t) == UNION {[1..n -> ArgsOf(t)] : n \in 1..MaxArgs}
\* the statement does not say what happens below a directory that is named
\* explicitly but lies inside an excluded one: such arguments are not generated
\* ("a file named explicitly is processed wherever it lives": a *file* argument is constrained
\*  whatever directories lead to it)
Constrained(a) == KindOf(a.path) # "dir" \/ \A i \in 1..(Len(a.path) - 1) : ~Excluded(a.path[i])

\* ------------------------------------------------------------- P-layer --
IsPrefix2(p, q) == Len(p) <= Len(q) /\ SubSeq(q, 1, Len(p)) = p
GoFile(p) == p # <<>> /\ Kind(Last(p)) = "file" /\ IsGoName(Last(p))
Beneath(t, a, p) ==
  /\ KindOf(a.path) = "dir" /\ IsPrefix2(a.path, p) /\ p # a.path
  \* not reached through an excluded directory (the named one included)
  /\ \A i \in (IF a.path = <<>> THEN 1 ELSE Len(a.path))..(Len(p) - 1) : ~Excluded(p[i])
RefSet(t, args) == {p \in Paths(t) : GoFile(p) /\ \E i \in 1..Len(args) : args[i].path = p \/ Beneath(t, args[i], p)}

\* ------------------------------------------------------------- I-layer --
RECURSIVE IWalk(_, _)
IWalk(t, p) ==
  IF KindOf(p) = "file" THEN (IF IsGoName(Last(p)) THEN {p} ELSE {})
  ELSE IF KindOf(p) # "dir" THEN {}                                 \* symlinks: neither regular nor directory
  ELSE IF p # <<>> /\ Excluded(Last(p)) THEN {}                      \* filepath.SkipDir
  ELSE UNION {IWalk(t, q) : q \in {x \in Paths(t) : Len(x) = Len(p) + 1 /\ IsPrefix2(p, x)}}
\* The working directory is the root of the tree; it may have been entered through the link that lies next to the
\* tree (cv = "l"). A relative argument is joined to the working directory as the command knows it: with
\* CwdMode = "logical" it is then spelled through the link, and "." is the link itself - which the walk does not
\* follow.
CwdVias == {"w", "l"}
ViaOf(a, cv) == IF a.abs \/ a.via = "l" THEN a.via ELSE IF CwdMode = "logical" THEN cv ELSE "w"
RootIsLink(a, cv) == a.path = <<>> /\ ~a.abs /\ CwdMode = "logical" /\ cv = "l"
\* what the walks yield: paths as spelled (through the link or not)
ISpelled(t, args, cv) == UNION {{[via |-> ViaOf(args[i], cv), p |-> q] :
                                    q \in (IF RootIsLink(args[i], cv) THEN {} ELSE IWalk(t, args[i].path))} : i \in 1..Len(args)}
\* findFiles keeps one entry per key
IKey(x) == IF KeyMode = "real" THEN [via |-> "w", p |-> x.p] ELSE x
IEntries(t, args, cv) == {IKey(x) : x \in ISpelled(t, args, cv)}
ISet(t, args, cv) == {e.p : e \in IEntries(t, args, cv)}
\* how often a file is processed in one run
ITimes(t, args, cv, q) == Cardinality({e \in IEntries(t, args, cv) : e.p = q})

PathLess(p, q) ==
  \E k \in 1..Len(p) + 1 :
     /\ \A j \in 1..(k - 1) : j <= Len(q) /\ p[j] = q[j]
     /\ \/ (k = Len(p) + 1 /\ Len(q) >= k)
        \/ (k <= Len(p) /\ k <= Len(q) /\ Rank(p[k]) < Rank(q[k]))
IFiles(t, args, cv) == SortSeq(SetToSeq(ISet(t, args, cv)), PathLess)

\* -------------------------------------------------------------- machine --
VARIABLES tree, args, cwdvia
vars == <<tree, args, cwdvia>>
Init == tree \in Trees /\ args \in {l \in ArgLists(tree) : \A i \in 1..Len(l) : Constrained(l[i])} /\ cwdvia \in CwdVias
Next == UNCHANGED vars
Spec == Init /\ [][Next]_vars

DesignOK ==
  LET f == IFiles(tree, args, cwdvia) IN
  /\ {f[i] : i \in 1..Len(f)} = RefSet(tree, args)
  /\ \A i, j \in 1..Len(f) : i < j => PathLess(f[i], f[j])          \* sorted, hence no duplicates
  /\ \A q \in RefSet(tree, args) : ITimes(tree, args, cwdvia, q) = 1        \* each once, whatever the spellings
====
