---- MODULE Comments ----
(***************************************************************************)
(* C17: comments of untouched declarations survive; none are invented or   *)
(* duplicated.                                                             *)
(*                                                                         *)
(* Universe.  A file is a header and a sequence of top-level declaration   *)
(* slots.  A slot says which comments surround the declaration and how the *)
(* patch touches it:                                                       *)
(*   kind   func | var | type                                              *)
(*   doc    none | line | block | multi (two lines) | directive            *)
(*          (//go:generate directly above)                                 *)
(*   inner  none | eol (end-of-line comment on a body line) | own          *)
(*          (own-line comment in the body) | expr (inside an expression)   *)
(*   trail  none | eol (comment on the line where the declaration ends)    *)
(*   gap    none | free (free-standing comment, blank lines around it,     *)
(*          before the declaration)                                        *)
(*   touch  none | expr (a call inside it is rewritten) | stmt (a          *)
(*          statement inside it is deleted; func only) | decl (the whole   *)
(*          declaration is replaced by one of another shape; for a type:   *)
(*          a defined type becomes an alias)                               *)
(* The header: build constraint, detached licence comment, package         *)
(* comment, comment trailing the package clause.                           *)
(*                                                                         *)
(* P-layer, judged on what an independent observer (go/parser on the       *)
(* gofmt'ed input and on the output; harness/cmtobs.go) reads off:         *)
(*   UntouchedKeepsComments  every declaration whose syntax is unchanged   *)
(*        has, in the output, exactly the comments (doc, inside, trailing) *)
(*        it had: same texts, same order, attached to it                   *)
(*   HeaderKept             the header comments are exactly as before      *)
(*   PackageTrailKept       so is a comment trailing the package clause    *)
(*   NothingInvented        no comment text occurs more often in the       *)
(*        output than in the input                                         *)
(*                                                                         *)
(* I-layer: the interval arithmetic of astdiff.walkSlice and of            *)
(* cleanupFilePos on the top-level declaration list (see Regions below).   *)
(***************************************************************************)
EXTENDS Naturals, Sequences, FiniteSets, TLC, SequencesExt, FiniteSetsExt

CONSTANTS MaxDecls

Kinds  == {"func", "var", "type"}
Docs   == {"none", "line", "block", "multi", "directive"}
Inners == {"none", "eol", "own", "expr"}
Trails == {"none", "eol"}
Gaps   == {"none", "free"}
Touch  == {"none", "expr", "stmt", "decl"}

Slots == {s \in [kind : Kinds, doc : Docs, inner : Inners, trail : Trails, gap : Gaps, touch : Touch] :
            /\ (s.touch = "stmt" => s.kind = "func")
            /\ (s.kind = "type" => s.touch \in {"none", "decl"})
            /\ (s.inner \in {"own"} => s.kind \in {"func", "type"})}
Headers == [build : {"none", "tag"}, lic : {"none", "detached"}, pkgdoc : {"none", "line"}, pkgtrail : {"none", "eol"}]
Files == [hdr : Headers, decls : UNION {[1..n -> Slots] : n \in 1..MaxDecls}]

\* ------------------------------------------------------------- P-layer ----
\* rec.din / rec.dout: sequences of [id, comments]; id > 0 pairs a declaration of the
\* input with the declaration of the output that has the same syntax (0 = no partner)
Count(s, t) == Cardinality({i \in 1..Len(s) : s[i] = t})
Violations(rec) ==
  (IF \A i \in 1..Len(rec.din) : rec.din[i].id # 0 =>
         \E j \in 1..Len(rec.dout) : rec.dout[j].id = rec.din[i].id /\ rec.dout[j].comments = rec.din[i].comments
   THEN {} ELSE {"UntouchedKeepsComments"})
  \cup (IF rec.hdrOut = rec.hdrIn THEN {} ELSE {"HeaderKept"})
  \cup (IF rec.ptOut = rec.ptIn THEN {} ELSE {"PackageTrailKept"})
  \cup (IF \A i \in 1..Len(rec.allOut) : Count(rec.allOut, rec.allOut[i]) <= Count(rec.allIn, rec.allOut[i])
        THEN {} ELSE {"NothingInvented"})

\* ------------------------------------------------------------- I-layer ----
\* The declaration list on a line: item i occupies [pos[i], end[i]); the comments the
\* CommentMap associates with it lie before pos[i] (before[i], ascending) or after
\* end[i] (after[i]).  Everything is an interval [p, e) of offsets.
\* Region of item i as computed by astdiff.walkSlice (parent region [ppos, pend)):
Region(items, i, ppos, pend) ==
  LET n == Len(items)
      hasAfter(k) == items[k].after # <<>>
      hasBefore(k) == items[k].before # <<>>
      p0 == IF i > 1 THEN (IF hasAfter(i - 1) THEN items[i].pos ELSE items[i - 1].end) ELSE ppos
      e0 == IF i < n THEN (IF hasBefore(i + 1) THEN items[i].end ELSE items[i + 1].pos) ELSE pend
      p1 == IF hasBefore(i) THEN (IF Last(items[i].before).e > p0 THEN Last(items[i].before).e ELSE p0) ELSE p0
      e1 == IF hasAfter(i) THEN (IF items[i].after[1].p < e0 THEN items[i].after[1].p ELSE e0) ELSE e0
  IN [p |-> p1, e |-> e1]
Inside(c, r) == c.p >= r.p /\ c.e <= r.e
\* the comments cleanupFilePos deletes when item i is replaced as a whole
Deleted(items, i, ppos, pend) ==
  LET r == Region(items, i, ppos, pend)
      cs(k) == {items[k].before[j] : j \in 1..Len(items[k].before)} \cup {items[k].after[j] : j \in 1..Len(items[k].after)}
  IN {c \in UNION {cs(k) : k \in 1..Len(items)} : Inside(c, r)}
\* design property: replacing item i never deletes a comment of another item
OthersCommentsSurvive(items, ppos, pend) ==
  \A i \in 1..Len(items) :
    \A k \in (1..Len(items)) \ {i} :
      \A c \in {items[k].before[j] : j \in 1..Len(items[k].before)} \cup {items[k].after[j] : j \in 1..Len(items[k].after)} :
        c \notin Deleted(items, i, ppos, pend)
====
