---- MODULE TraceHistory ----
(***************************************************************************)
(* Judges recorded executions of change sequences (C09).  A record holds   *)
(* the abstract input file, the rules, the hook events of the combined     *)
(* command-line run (one `change` event per Match call, in call order) and *)
(* for every delivery route (one patch file, one -p per change, -P list,   *)
(* stdin, -p/-P mixed, library API, chain of single-change runs) what an   *)
(* independent observer read off the result.                               *)
(***************************************************************************)
EXTENDS History, Json

CONSTANTS TraceFile, OutFile
Trace == ndJsonDeserialize(TraceFile)

VARIABLES l, verdicts
tvars == <<l, verdicts>>

FileOf(r) == [pkg |-> r.pkg, body |-> r.body]
RouteOK(rt, want, f0) ==
  IF want.ok THEN rt.failed = "0" /\ rt.pkg = want.file.pkg /\ rt.body = want.file.body
  ELSE rt.failed = "1" /\ rt.reported = "1" /\ rt.pkg = f0.pkg /\ rt.body = f0.body /\ rt.untouched = "1"

Verdict(r) ==
  LET f0 == FileOf(r)
      \* hand-written sequences (free = "1") lie outside the rule universe: the result wanted is what the chain of
      \* single-change runs, the file re-read in between, was observed to give (the statement's own definition)
      \* ... and so do sequences in which a change meets an instance inside an instance of itself (History.tla)
      want == IF r.free = "1" \/ ~WellFormedRun(f0, r.rules) THEN [ok |-> TRUE, file |-> [pkg |-> r.chain.pkg, body |-> r.chain.body]] ELSE Chain(f0, r.rules)
      ev == r.events
      pred == IF r.free = "1" \/ ~WellFormedRun(f0, r.rules) THEN [log |-> [i \in 1..Len(ev) |-> [k |-> ev[i].k, matched |-> ev[i].matched = "1"]]] ELSE IRun(f0, r.rules)
      badRoutes == {r.routes[i].name : i \in {j \in 1..Len(r.routes) : ~RouteOK(r.routes[j], want, f0)}}
      \* the chain route is the definition itself: a disagreement there means the harness, not the tool
  IN [id |-> r.id,
      ieq |-> IF Len(ev) = Len(pred.log) /\ \A i \in 1..Len(ev) : ev[i].k = pred.log[i].k /\ (ev[i].matched = "1") = pred.log[i].matched
              THEN "1" ELSE "0",
      viol |-> SetToSeq(
         {"Route_" \o n : n \in badRoutes}
         \cup (IF \A i \in 1..(Len(ev) - 1) : ev[i].k < ev[i + 1].k THEN {} ELSE {"AppliedInGivenOrder"})
         \cup (IF want.ok /\ r.hooks = "1" /\ Len(ev) # Len(r.rules) THEN {"EveryChangeTriedOnce"} ELSE {}))]

TraceInit == /\ l = 1 /\ verdicts = <<>>
             /\ file0 = [pkg |-> "p", body |-> <<>>] /\ rules = <<>> /\ cur = file0 /\ k = 1 /\ st = "done" /\ log = <<>>
TraceNext == l <= Len(Trace) /\ l' = l + 1 /\ verdicts' = Append(verdicts, Verdict(Trace[l])) /\ UNCHANGED vars
TraceSpec == TraceInit /\ [][TraceNext]_<<vars, tvars>>
Flush == (l = Len(Trace) + 1) => ndJsonSerialize(OutFile, verdicts)
Accepted == TLCGet("stats").diameter - 1 = Len(Trace)
====
