---- MODULE EmitImports ----
(* Writes scenarios of the Imports.tla universe as NDJSON for replay into   *)
(* the real code: for every (package clause, import lines) of the bounded   *)
(* universe, PerPatch files on which the guards hold and PerPatch files on  *)
(* which they fail (chosen by TLC's RandomSubset; PerPatch = 0 means all),  *)
(* each with PerFile sets of names that remain in use.                      *)
EXTENDS Imports, Json, Randomization
CONSTANTS OutFile, PerPatch, PerFile
Pick(k, S) == IF k = 0 \/ Cardinality(S) <= k THEN S ELSE RandomSubset(k, S)
FilesFor(pk, ps) ==
  LET all == {FImpSeq(c) : c \in FileImpSets}
      ok(f) == GuardsHold([pkg |-> pk, pimps |-> ps, fimps |-> f, uses |-> {}])
  IN Pick(PerPatch, {f \in all : ok(f)}) \cup Pick(PerPatch, {f \in all : ~ok(f)})
Rec(pk, ps, f, u) == [pkg |-> pk, pimps |-> ps, fimps |-> f, uses |-> SetToSeq(u),
                      holds |-> IF GuardsHold([pkg |-> pk, pimps |-> ps, fimps |-> f, uses |-> u]) THEN "1" ELSE "0"]
Emit == ndJsonSerialize(OutFile, SetToSeq(UNION {UNION {{Rec(pk, ps, f, u) : u \in Pick(PerFile, UseSets)} : f \in FilesFor(pk, ps)} :
                                                    pk \in Pkgs, ps \in PatchImpLists}))
\* Two changes in one patch file: the first edits the imports, the second is
\* guarded by imports of the paths the first one mentions; the guard of the
\* second is to be evaluated on the file the first one produced.
CONSTANTS Pairs            \* "1": emit pairs instead of single scenarios
Edits == {ps \in PatchImpLists : \E i \in 1..Len(ps) : ps[i].side # "ctx"}
GuardOnly(paths) == {ps \in PatchImpLists : Len(ps) >= 1 /\ \A i \in 1..Len(ps) : GuardSide(ps[i]) /\ ps[i].path \in paths}
PairRecs(ps1) ==
  LET all == {FImpSeq(c) : c \in FileImpSets}
      files == Pick(PerPatch, {f \in all : GuardsHold([pkg |-> "", pimps |-> ps1, fimps |-> f, uses |-> {}])})
      paths == {ps1[i].path : i \in 1..Len(ps1)}
  IN UNION {UNION {LET s1 == [pkg |-> "", pimps |-> ps1, fimps |-> f, uses |-> u]
                       mid == SetToSeq(IApply(s1).out)
                       ok2(ps2) == GuardsHold([pkg |-> "", pimps |-> ps2, fimps |-> mid, uses |-> u])
                       seconds == Pick(PerFile, {x \in GuardOnly(paths) : ok2(x)}) \cup Pick(PerFile, {x \in GuardOnly(paths) : ~ok2(x)})
                   IN {[pkg |-> "", pimps |-> ps1, fimps |-> f, uses |-> SetToSeq(u), holds |-> "1",
                        pimps2 |-> ps2, holds2 |-> IF ok2(ps2) THEN "1" ELSE "0"] : ps2 \in seconds}
                   : u \in Pick(1, UseSets)} : f \in files}
EmitPairs == ndJsonSerialize(OutFile, SetToSeq(UNION {PairRecs(ps1) : ps1 \in Edits}))
VARIABLE emitted
EmitInit == emitted = (IF Pairs = "1" THEN EmitPairs ELSE Emit) /\ stage = "patch" /\ sc = [pkg |-> "", pimps |-> <<>>, fimps |-> <<>>, uses |-> {}]
EmitSpec == EmitInit /\ [][UNCHANGED <<emitted, sc, stage>>]_<<emitted, sc, stage>>
====
