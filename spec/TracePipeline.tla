---- MODULE TracePipeline ----
(***************************************************************************)
(* Trace validation of real gopatch command runs against Pipeline.tla.     *)
(*                                                                         *)
(* TraceFile holds, for every run, a "start" line (the scenario), one line *)
(* per stage event emitted by the verif hooks of main.go, and an "end"     *)
(* line with the black-box observation of the run (disk, stdout, stderr,   *)
(* exit status, files named by file-mutating system calls from strace).    *)
(* Stage events are consumed by the corresponding Pipeline action; steps   *)
(* the hooks do not see (system calls of the write path, a kill) are taken *)
(* silently.  The "end" line replaces the modelled observable state by the *)
(* observed one, so the P-layer predicates of Pipeline are evaluated on    *)
(* what the real binary did; they, and the comparison with the model's     *)
(* own prediction (drift), go into the verdict record of the run.          *)
(***************************************************************************)
EXTENDS Pipeline, Json, SequencesExt

CONSTANTS TraceFile, OutFile

Trace == ndJsonDeserialize(TraceFile)

VARIABLES l, verdicts, stuck, phase,
          hooks    \* FALSE: the run was recorded without stage events (all steps silent)
tvars == <<l, verdicts, stuck, phase, hooks>>

B(x) == x = "1"
Ev == Trace[l]
IsEvent(name) == l <= Len(Trace) /\ Ev.ev = name /\ l' = l + 1
SameScenario == UNCHANGED <<kinds, flags, fault>>

TraceInit ==
  /\ l = 1 /\ verdicts = <<>> /\ stuck = FALSE /\ phase = "idle" /\ hooks = TRUE
  /\ TLCSet(1, 0)
  /\ kinds = <<>> /\ flags = [diff |-> FALSE, print |-> FALSE, skipImports |-> FALSE, skipGenerated |-> FALSE, verbose |-> FALSE]
  /\ fault = [f |-> 0, p |-> "none"]
  /\ cur = 1 /\ stage = "idle" /\ disk = <<>> /\ stdout = <<>> /\ stderr = <<>> /\ errs = <<>> /\ rerrs = <<>>
  /\ touched = {} /\ nwrites = 0 /\ exit = -1

\* a new run: load its scenario
TraceStart ==
  /\ IsEvent("start") /\ phase \in {"idle", "judged"}
  /\ phase' = "run" /\ stuck' = FALSE /\ hooks' = B(Ev.ok)
  /\ kinds' = Ev.kinds
  /\ flags' = [diff |-> B(Ev.flags.diff), print |-> B(Ev.flags.print), skipImports |-> B(Ev.flags.skipImports),
               skipGenerated |-> B(Ev.flags.skipGenerated), verbose |-> B(Ev.flags.verbose)]
  /\ fault' = [f |-> Ev.fault.f, p |-> Ev.fault.p]
  /\ cur' = 1 /\ stage' = "load"
  /\ disk' = [i \in 1..Len(Ev.kinds) |-> "orig"]
  /\ stdout' = <<>> /\ stderr' = <<>> /\ errs' = <<>> /\ rerrs' = <<>> /\ touched' = {} /\ nwrites' = 0 /\ exit' = -1
  /\ UNCHANGED <<verdicts>>

OnFile == Ev.f = cur

TraceRead     == IsEvent("read") /\ OnFile /\ Read /\ (B(Ev.ok) <=> stage' = "parse")
TraceParse    == IsEvent("parse") /\ OnFile /\ Parse /\ (B(Ev.ok) <=> stage' = "generated")
TraceGencheck == IsEvent("gencheck") /\ OnFile /\ Generated /\ (B(Ev.ok) <=> stage' # "apply")
TraceApply    == IsEvent("apply") /\ OnFile /\ Apply /\ (B(Ev.ok) <=> stage' = "format")
TraceFormat   == IsEvent("format") /\ OnFile /\ stage = "format" /\ B(Ev.ok) /\ UNCHANGED vars
TraceImports  == IsEvent("imports") /\ OnFile /\ ~flags.skipImports /\ FormatImports /\ (B(Ev.ok) <=> stage' = "emit")
TraceEmit     ==
  /\ IsEvent("emit") /\ OnFile
  /\ \/ EmitDiff \/ EmitPrint
     \/ (WriteRename /\ stage' # "killed")
     \/ (WriteTemp /\ stage' # "rename")
  /\ (B(Ev.ok) <=> errs' = errs)
TraceDone     == IsEvent("done") /\ Finish /\ Ev.n = Len(errs) + Len(rerrs)

\* steps the hooks cannot see: the re-parse with --skip-import-processing,
\* the system calls of the write path, a kill; and every step of a run that
\* was recorded without hooks
Silent ==
  /\ l <= Len(Trace) /\ phase = "run"
  /\ IF hooks
     THEN \/ LoadPatches
          \/ Discover
          \/ (FormatImports /\ flags.skipImports)
          \/ (WriteTemp /\ stage' = "rename")
          \/ (WriteRename /\ stage' = "killed")
     ELSE Next
  /\ UNCHANGED l

\* P-layer predicates of Pipeline that are false in the observed (primed) state
Viol ==
  (IF C06_NoMatchNoEffect' THEN {} ELSE {"C06_NoMatchNoEffect"}) \cup
  (IF C06_ExitZero' THEN {} ELSE {"C06_ExitZero"}) \cup
  (IF C07_EmittedParses' THEN {} ELSE {"C07_EmittedParses"}) \cup
  (IF C07_BadResultReported' THEN {} ELSE {"C07_BadResultReported"}) \cup
  (IF C07_OutputWellFormed' THEN {} ELSE {"C07_OutputWellFormed"}) \cup
  (IF C12_DryRunNeverWrites' THEN {} ELSE {"C12_DryRunNeverWrites"}) \cup
  (IF C12_DescriptionsOnStderrOnly' THEN {} ELSE {"C12_DescriptionsOnStderrOnly"}) \cup
  (IF C12_StdoutIsOutputOnly' THEN {} ELSE {"C12_StdoutIsOutputOnly"}) \cup
  (IF C16_Atomic' THEN {} ELSE {"C16_Atomic"}) \cup
  (IF C16_Reported' THEN {} ELSE {"C16_Reported"}) \cup
  (IF C16_ExitZeroMeansAllDone' THEN {} ELSE {"C16_ExitZeroMeansAllDone"}) \cup
  (IF C16_Isolation' THEN {} ELSE {"C16_Isolation"}) \cup
  (IF C18_Protected' THEN {} ELSE {"C18_Protected"}) \cup
  (IF C18_OnlyThem' THEN {} ELSE {"C18_OnlyThem"}) \cup
  (IF C18_PlainProcessed' THEN {} ELSE {"C18_PlainProcessed"})

ObsTouched == {Ev.obs.touched[i] : i \in 1..Len(Ev.obs.touched)}

\* end of a run: compare prediction and observation, then judge the observation
TraceEnd ==
  /\ IsEvent("end") /\ phase = "run"
  \* a run that ends while the model has not finished (a crash) is drift;
  \* its observation is judged all the same
  /\ stuck \/ stage \in {"done", "killed"} \/ ~ENABLED Silent
  /\ SameScenario /\ UNCHANGED <<errs, rerrs, stuck, hooks, nwrites>>
  /\ phase' = "judged"
  \* the observed final control state: finished normally or killed
  /\ stage' = IF Ev.obs.exit = 137 THEN "killed" ELSE "done"
  /\ cur' = IF stuck THEN Ev.obs.cur ELSE cur
  /\ disk' = Ev.obs.disk /\ stdout' = Ev.obs.stdout /\ stderr' = Ev.obs.stderr
  /\ exit' = Ev.obs.exit /\ touched' = ObsTouched
  /\ verdicts' = Append(verdicts,
       [id |-> Ev.id,
        ieq |-> IF /\ ~stuck /\ stage \in {"done", "killed"} /\ disk = Ev.obs.disk /\ stdout = Ev.obs.stdout /\ stderr = Ev.obs.stderr
                   /\ exit = Ev.obs.exit /\ touched = ObsTouched
                THEN "1" ELSE "0",
        stuck |-> IF stuck THEN "1" ELSE "0",
        pred |-> [disk |-> disk, stdout |-> stdout, stderr |-> stderr, exit |-> exit],
        viol |-> SetToSeq(Viol)])

Consume == TraceRead \/ TraceParse \/ TraceGencheck \/ TraceApply \/ TraceFormat \/ TraceImports \/ TraceEmit \/ TraceDone

\* the recorded run left the model (drift): skip its remaining stage events;
\* its observation is still judged by TraceEnd
TraceSkip ==
  /\ l <= Len(Trace) /\ phase = "run" /\ Ev.ev \notin {"start", "end"}
  /\ stuck \/ (~(hooks /\ ENABLED Consume) /\ ~ENABLED Silent)
  /\ l' = l + 1 /\ stuck' = TRUE
  /\ UNCHANGED <<vars, verdicts, phase, hooks>>

TraceNext ==
  \/ TraceStart
  \/ (~stuck /\ hooks /\ Consume /\ UNCHANGED <<verdicts, stuck, phase, hooks>>)
  \* silent steps are taken only when the next event cannot be consumed yet
  \* (keeps the search linear: the model is deterministic per scenario)
  \/ (~stuck /\ ~(hooks /\ ENABLED Consume) /\ Silent /\ UNCHANGED <<verdicts, stuck, phase, hooks>>)
  \/ TraceSkip
  \/ TraceEnd

TraceSpec == TraceInit /\ [][TraceNext]_<<vars, tvars>>

Flush == (l = Len(Trace) + 1) => ndJsonSerialize(OutFile, verdicts)

\* high-water mark of consumed lines (silent steps make the diameter useless)
HighWater == TLCSet(1, IF TLCGet(1) < l THEN l ELSE TLCGet(1))
Accepted == TLCGet(1) = Len(Trace) + 1
====
