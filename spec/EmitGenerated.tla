---- MODULE EmitGenerated ----
(* Writes the header universe of Generated.tla, with its P-layer class and *)
(* the I-layer prediction, as NDJSON for replay into the real binary.      *)
EXTENDS Generated
CONSTANTS OutFile
Emit == ndJsonSerialize(OutFile, SetToSeq({[pre |-> x.pre, doc |-> x.doc, after |-> x.after, body |-> x.body,
                                              class |-> Class(x), iskip |-> IF ISkip(x) THEN "1" ELSE "0"] : x \in Headers}))
VARIABLE emitted
EmitInit == emitted = Emit /\ h = CHOOSE x \in Headers : TRUE
EmitSpec == EmitInit /\ [][UNCHANGED <<emitted, h>>]_<<emitted, h>>
====
