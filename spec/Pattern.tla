---- MODULE Pattern ----
(***************************************************************************)
(* P-layer (reference semantics) and operator-level I-layer for gopatch's  *)
(* pattern language, generic over the term encoding produced by the        *)
(* harness' abstraction function (harness/alpha.go):                       *)
(*                                                                         *)
(*   term = [k |-> kind, s |-> <<slot, ...>>]                              *)
(*   slot = [t |-> "n"|"l"|"z"|"a", a |-> atom, ty |-> static type,        *)
(*           v |-> <<term, ...>>]                                          *)
(*                                                                         *)
(* Pattern-only terms: @meta <<name, kind>>, @dots <<id>>,                 *)
(* @fordots <<id, body>>, @stmts <<list>> (statement-list pattern with     *)
(* the implicit leading/trailing elision already inserted).                *)
(*                                                                         *)
(* P is written from the property statements (C01-C05) and the README:     *)
(* "is a syntactic instance of", "some choice of runs", "the + pattern     *)
(* instantiated with what was captured", "identical outside the rewritten  *)
(* fragments".  I mirrors internal/engine: greedy, non-backtracking        *)
(* section search (slice_dots.go), first occurrence captures.              *)
(***************************************************************************)
EXTENDS Naturals, Sequences, FiniteSets, TLC, AstSchema

\* ---------------------------------------------------------------- terms --
IsMeta(p)    == p.k = "@meta"
MetaName(p)  == p.s[1].a
MetaKind(p)  == p.s[2].a
IsDots(p)    == p.k = "@dots"
DotsId(p)    == p.s[1].a
IsForDots(p) == p.k = "@fordots"
IsStmts(p)   == p.k = "@stmts"

StmtContainers == {"BlockStmt", "CaseClause", "CommClause"}
LoopKinds      == {"ForStmt", "RangeStmt"}

\* index of the statement-list slot of a container / the body of a loop
ListSlotIx(k) == CASE k = "BlockStmt"  -> 2
                   [] k = "CaseClause" -> 4
                   [] k = "CommClause" -> 4
BodySlotIx(k) == CASE k = "ForStmt"   -> 5
                   [] k = "RangeStmt" -> 8

AtomSlot(x)     == [t |-> "a", a |-> x, ty |-> "-", v |-> <<>>]
NodeSlot(ty, x) == [t |-> "n", a |-> "", ty |-> ty, v |-> <<x>>]
ListSlot(ty, l) == [t |-> "l", a |-> "", ty |-> ty, v |-> l]

RECURSIVE Strip(_), StripSeq(_, _)
Strip(t) ==
  IF t.k = "ParenExpr" THEN Strip(t.s[2].v[1])
  ELSE [k |-> t.k,
        s |-> [i \in 1..Len(t.s) |->
                 [t |-> t.s[i].t, a |-> t.s[i].a, ty |-> t.s[i].ty,
                  v |-> StripSeq(t.s[i].v, 1)]]]
StripSeq(l, i) == IF i > Len(l) THEN <<>> ELSE <<Strip(l[i])>> \o StripSeq(l, i + 1)

\* ------------------------------------------------------------- bindings --
\* A binding is a sequence of [name, val]; val is a sequence of terms
\* (one term for a metavariable or loop header, a run for an elision).
Fail  == [ok |-> FALSE, b |-> <<>>]
Ok(b) == [ok |-> TRUE, b |-> b]
Has(b, n) == \E i \in 1..Len(b) : b[i].name = n
Get(b, n) == b[CHOOSE i \in 1..Len(b) : b[i].name = n].val
Bind(b, n, v) == Append(b, [name |-> n, val |-> v])

\* an 'expression' metavariable stands for a Go expression: 'key: value' and the '...T' of a variadic parameter
\* are nodes of go/ast's expression interface, but no expressions
KindOK(kind, s) == IF kind = "ident" THEN s.k = "Ident" ELSE s.k \in ExprKinds \ {"KeyValueExpr", "Ellipsis"}

\* --------------------------------------------- matching (P and I layers) --
\* greedy = FALSE: P.  A pattern list matches iff SOME choice of runs makes
\*   every explicit element match in order; the witness is the leftmost,
\*   shortest one.
\* greedy = TRUE: the pinned revision's slice_dots.go: the first candidate
\*   position at which the next section's elements match is final (no
\*   backtracking); the list must be consumed at the end.  Kept to recognise
\*   a regression to that behaviour.
RECURSIVE MatchNode(_, _, _, _), MatchSlots(_, _, _, _, _), MatchList(_, _, _, _, _, _),
          SectionEnd(_, _), PrefixAt(_, _, _, _, _, _, _), GreedyFind(_, _, _, _, _, _, _)

MatchNode(p, s, b, greedy) ==
  IF IsMeta(p) THEN
       IF ~KindOK(MetaKind(p), s) THEN Fail
       ELSE IF Has(b, MetaName(p))
            THEN (IF Get(b, MetaName(p)) = <<s>> THEN Ok(b) ELSE Fail)
            ELSE Ok(Bind(b, MetaName(p), <<s>>))
  ELSE IF IsDots(p) THEN Fail
  ELSE IF IsForDots(p) THEN
       IF s.k \notin LoopKinds THEN Fail
       ELSE MatchNode(p.s[2].v[1], s.s[BodySlotIx(s.k)].v[1], Bind(b, DotsId(p), <<s>>), greedy)
  ELSE IF IsStmts(p) THEN
       IF s.k \notin StmtContainers THEN Fail
       ELSE MatchList(p.s[1].v, s.s[ListSlotIx(s.k)].v, 1, 1, b, greedy)
  ELSE IF p.k # s.k \/ Len(p.s) # Len(s.s) THEN Fail
  ELSE MatchSlots(p.s, s.s, 1, b, greedy)

MatchSlots(ps, ss, i, b, greedy) ==
  IF i > Len(ps) THEN Ok(b)
  ELSE LET p == ps[i]
           s == ss[i]
       IN IF p.t # s.t THEN Fail
          ELSE LET r == CASE p.t = "z" -> Ok(b)
                          [] p.t = "a" -> (IF p.a = s.a THEN Ok(b) ELSE Fail)
                          [] p.t = "n" -> MatchNode(p.v[1], s.v[1], b, greedy)
                          [] p.t = "l" -> MatchList(p.v, s.v, 1, 1, b, greedy)
               IN IF r.ok THEN MatchSlots(ps, ss, i + 1, r.b, greedy) ELSE Fail

\* end (exclusive) of the section of explicit elements starting at pl[i]
SectionEnd(pl, i) == IF i > Len(pl) \/ IsDots(pl[i]) THEN i ELSE SectionEnd(pl, i + 1)

\* match pl[i..e-1] against sl[j..] element-wise
PrefixAt(pl, sl, i, e, j, b, greedy) ==
  IF i >= e THEN Ok(b)
  ELSE IF j > Len(sl) THEN Fail
  ELSE LET r == MatchNode(pl[i], sl[j], b, greedy)
       IN IF r.ok THEN PrefixAt(pl, sl, i + 1, e, j + 1, r.b, greedy) ELSE Fail

\* I: findSection - try candidates cand, cand+1, ...; first hit is final
GreedyFind(pl, sl, i, e, j, cand, b) ==
  IF cand > Len(sl) THEN Fail
  ELSE LET r == PrefixAt(pl, sl, i, e, cand, Bind(b, DotsId(pl[i - 1]), SubSeq(sl, j, cand - 1)), TRUE)
       IN IF r.ok THEN [ok |-> TRUE, b |-> r.b, j |-> cand + (e - i)]
          ELSE GreedyFind(pl, sl, i, e, j, cand + 1, b)

MatchList(pl, sl, i, j, b, greedy) ==
  IF i > Len(pl) THEN (IF j > Len(sl) THEN Ok(b) ELSE Fail)
  ELSE IF IsDots(pl[i]) THEN
     IF greedy THEN
        LET e == SectionEnd(pl, i + 1) IN
        IF e = i + 1   \* empty section after the dots
        THEN IF i + 1 > Len(pl)
             THEN Ok(Bind(b, DotsId(pl[i]), SubSeq(sl, j, Len(sl))))    \* trailing dots swallow the rest
             ELSE \* "... ..." : findSection with len(want)=0 swallows everything
                  MatchList(pl, sl, i + 1, Len(sl) + 1, Bind(b, DotsId(pl[i]), SubSeq(sl, j, Len(sl))), TRUE)
        ELSE LET f == GreedyFind(pl, sl, i + 1, e, j, j, b)
             IN IF f.ok THEN MatchList(pl, sl, e, f.j, f.b, TRUE) ELSE Fail
     ELSE
        LET try(n) == MatchList(pl, sl, i + 1, n, Bind(b, DotsId(pl[i]), SubSeq(sl, j, n - 1)), FALSE)
            cands  == {n \in j..(Len(sl) + 1) : try(n).ok}
        IN IF cands = {} THEN Fail
           ELSE try(CHOOSE n \in cands : \A m \in cands : n <= m)
  ELSE IF j > Len(sl) THEN Fail
  ELSE LET r == MatchNode(pl[i], sl[j], b, greedy)
       IN IF r.ok THEN MatchList(pl, sl, i + 1, j + 1, r.b, greedy) ELSE Fail

PMatch(p, s) == MatchNode(p, s, <<>>, FALSE)
\* The engine backtracks over the candidate positions of each section
\* (slice_dots.go: matchSections), which is exactly the leftmost-shortest
\* witness of the existential definition.  The greedy variant is the engine
\* of the pinned revision: TLC refuted Complete for it (pattern <<..., a>>,
\* list <<a, a>>), the defect was reproduced and repaired.
IMatch(p, s) == MatchNode(p, s, <<>>, FALSE)
GreedyMatch(p, s) == MatchNode(p, s, <<>>, TRUE)

\* ---------------------------------------------------- admissibility ----
\* Kind of the node the instantiated '+' pattern produces at a site.
TopKind(q, b, s) ==
  IF IsMeta(q) THEN Get(b, MetaName(q))[1].k
  ELSE IF IsStmts(q) THEN s.k
  ELSE IF IsForDots(q) THEN Get(b, DotsId(q))[1].k
  ELSE q.k

\* "not syntactically admissible in that position (for example a call where
\* only a name may appear)": the slot's static Go type does not admit the
\* produced node.
Admissible(ty, k) ==
  \/ ty = k
  \/ ty = "Node"
  \/ ty = "Expr" /\ k \in ExprKinds
  \/ ty = "Stmt" /\ k \in StmtKinds
  \/ ty = "Decl" /\ k \in DeclKinds
  \/ ty = "Spec" /\ k \in SpecKinds

\* ------------------------------------------------- instantiation (P) ---
\* SubstRel(q, b, s, o): o (parentheses stripped) is the '+' pattern q
\* instantiated with binding b at the site whose input was s.
\*  - metavariables: syntactically identical copy of what was captured;
\*  - elided runs: reappear in place, complete, in order; elements are
\*    judged with Loose (instances nested in a rewritten instance may or may
\*    not have been rewritten themselves, see DESIGN section 7);
\*  - statement patterns: same container, other fields kept, list =
\*    prefix ++ instantiated statements ++ suffix.
RECURSIVE SubstRel(_, _, _, _, _, _), SubstSlots(_, _, _, _, _, _, _), SubstList(_, _, _, _, _, _, _, _),
          Loose(_, _, _, _, _), LooseSlots(_, _, _, _, _), LooseRun(_, _, _, _, _, _)

SubstRel(P, Q, q, b, s, o) ==
  IF IsMeta(q) THEN Has(b, MetaName(q)) /\ Strip(Get(b, MetaName(q))[1]) = o
  ELSE IF IsForDots(q) THEN
       /\ Has(b, DotsId(q))
       /\ LET h  == Get(b, DotsId(q))[1]
              bi == BodySlotIx(h.k)
          IN /\ o.k = h.k /\ Len(o.s) = Len(h.s)
             /\ \A i \in 1..Len(h.s) :
                  IF i = bi THEN o.s[i].t = "n" /\ SubstRel(P, Q, q.s[2].v[1], b, h.s[i].v[1], o.s[i].v[1])
                  ELSE LooseSlots(P, Q, <<h.s[i]>>, <<o.s[i]>>, 1)
  ELSE IF IsStmts(q) THEN
       /\ o.k = s.k /\ Len(o.s) = Len(s.s)
       /\ LET li == ListSlotIx(s.k)
          IN \A i \in 1..Len(s.s) :
               IF i = li THEN o.s[i].t = "l" /\ SubstList(P, Q, q.s[1].v, 1, b, o.s[i].v, 1, s)
               ELSE LooseSlots(P, Q, <<s.s[i]>>, <<o.s[i]>>, 1)
  ELSE /\ q.k = o.k /\ Len(q.s) = Len(o.s)
       /\ SubstSlots(P, Q, q.s, o.s, 1, b, s)

SubstSlots(P, Q, qs, os, i, b, s) ==
  \/ i > Len(qs)
  \/ LET a == qs[i]
         c == os[i]
     IN /\ a.t = c.t
        /\ CASE a.t = "z" -> TRUE
             [] a.t = "a" -> a.a = c.a
             [] a.t = "n" -> SubstRel(P, Q, a.v[1], b, s, c.v[1])
             [] a.t = "l" -> SubstList(P, Q, a.v, 1, b, c.v, 1, s)
        /\ SubstSlots(P, Q, qs, os, i + 1, b, s)

SubstList(P, Q, ql, i, b, ol, j, s) ==
  IF i > Len(ql) THEN j > Len(ol)
  ELSE IF IsDots(ql[i]) /\ ~Has(b, DotsId(ql[i])) THEN
       \* an elision that occurs on the '+' side only: the statement says nothing about what it stands for
       \E n \in 0..(Len(ol) - j + 1) : SubstList(P, Q, ql, i + 1, b, ol, j + n, s)
  ELSE IF IsDots(ql[i]) THEN
       LET run == Get(b, DotsId(ql[i]))
       IN /\ j + Len(run) - 1 <= Len(ol)
          /\ LooseRun(P, Q, run, ol, j, 1)
          /\ SubstList(P, Q, ql, i + 1, b, ol, j + Len(run), s)
  ELSE /\ j <= Len(ol)
       /\ SubstRel(P, Q, ql[i], b, s, ol[j])
       /\ SubstList(P, Q, ql, i + 1, b, ol, j + 1, s)

LooseRun(P, Q, run, ol, j, k) ==
  k > Len(run) \/ (Loose(P, Q, run[k], ol[j + k - 1], "Node") /\ LooseRun(P, Q, run, ol, j, k + 1))

\* o (stripped) is s in which instances of P may or may not have been rewritten.
Loose(P, Q, s, o, ty) ==
  IF s.k = "ParenExpr" /\ o.k # "ParenExpr" THEN Loose(P, Q, s.s[2].v[1], o, "Expr")
  ELSE
  LET r == PMatch(P, s) IN
  \/ (r.ok /\ Admissible(ty, TopKind(Q, r.b, s)) /\ SubstRel(P, Q, Q, r.b, s, o))
  \/ (s.k = o.k /\ Len(s.s) = Len(o.s) /\ LooseSlots(P, Q, s.s, o.s, 1))

LooseSlots(P, Q, ss, os, i) ==
  \/ i > Len(ss)
  \/ LET a == ss[i]
         c == os[i]
     IN /\ a.t = c.t
        /\ CASE a.t = "z" -> TRUE
             [] a.t = "a" -> a.a = c.a
             [] a.t = "n" -> Loose(P, Q, a.v[1], c.v[1], a.ty)
             [] a.t = "l" -> Len(a.v) = Len(c.v) /\ \A k \in 1..Len(a.v) : Loose(P, Q, a.v[k], c.v[k], a.ty)
        /\ LooseSlots(P, Q, ss, os, i + 1)

\* ------------------------------------------------ copies keep parentheses --
\* "a syntactically identical copy of the code the metavariable stood for":
\* SubstRel compares modulo ParenExpr because go/printer ADDS the parentheses
\* an instantiated tree needs.  Parentheses that were part of the captured
\* code must still be there: e -> a holds when a is e with parentheses added
\* only (never removed).
RECURSIVE AddedParensOnly(_, _), AddedParensSlots(_, _, _), ParenCore(_)
\* gofmt collapses nested parentheses ((x)) to (x): what counts is whether a
\* captured expression was parenthesised at all
ParenCore(e) == IF e.k = "ParenExpr" THEN ParenCore(e.s[2].v[1]) ELSE e
AddedParensOnly(e, a) ==
  /\ (e.k = "ParenExpr" => a.k = "ParenExpr")
  /\ LET ce == ParenCore(e)
         ca == ParenCore(a)
     IN ce.k = ca.k /\ Len(ce.s) = Len(ca.s) /\ AddedParensSlots(ce.s, ca.s, 1)
AddedParensSlots(es, as, i) ==
  \/ i > Len(es)
  \/ /\ es[i].t = as[i].t
     /\ CASE es[i].t = "z" -> TRUE
          [] es[i].t = "a" -> es[i].a = as[i].a
          [] es[i].t = "n" -> AddedParensOnly(es[i].v[1], as[i].v[1])
          [] es[i].t = "l" -> Len(es[i].v) = Len(as[i].v) /\ \A k \in 1..Len(es[i].v) : AddedParensOnly(es[i].v[k], as[i].v[k])
     /\ AddedParensSlots(es, as, i + 1)

\* Walk the '+' pattern q and the (unstripped) output o together; at every
\* metavariable the output must be the captured code with parentheses added
\* only.  Where the shapes do not line up (elided runs, statement lists,
\* loop headers) nothing is claimed here - SubstRel has judged the shape.
RECURSIVE CopiesKept(_, _, _), CopiesKeptSlots(_, _, _, _)
CopiesKept(q, b, o) ==
  IF IsMeta(q) THEN Has(b, MetaName(q)) => AddedParensOnly(Get(b, MetaName(q))[1], o)
  ELSE IF IsDots(q) \/ IsForDots(q) \/ IsStmts(q) THEN TRUE
  ELSE IF o.k = "ParenExpr" /\ q.k # "ParenExpr" THEN CopiesKept(q, b, o.s[2].v[1])
  ELSE IF q.k # o.k \/ Len(q.s) # Len(o.s) THEN TRUE
  ELSE CopiesKeptSlots(q.s, o.s, 1, b)
CopiesKeptSlots(qs, os, i, b) ==
  \/ i > Len(qs)
  \/ /\ (qs[i].t = "n" /\ os[i].t = "n") => CopiesKept(qs[i].v[1], b, os[i].v[1])
     /\ (qs[i].t = "l" /\ os[i].t = "l" /\ Len(qs[i].v) = Len(os[i].v) /\ \A k \in 1..Len(qs[i].v) : ~IsDots(qs[i].v[k]))
          => \A k \in 1..Len(qs[i].v) : CopiesKept(qs[i].v[k], b, os[i].v[k])
     /\ CopiesKeptSlots(qs, os, i + 1, b)

\* --------------------------------------------------------- the judge ----
\* Walk input s and output o together from the root.  Result: a set of
\* failure records [c |-> class, at |-> path] (empty = the case satisfies
\* C01, C02, C03 and C05).
\*   "missed"     an (outermost, admissible) instance was left as it was   (C01, C02, C04)
\*   "wrongrepl"  an instance was rewritten to something other than the
\*                instantiated '+' pattern                                  (C03, C02, C04)
\*   "collateral" input and output differ where there is no instance       (C01, C02, C05)
\* For a statement pattern the statements before and after the rewritten
\* run are outside the rewritten fragment, so they are judged strictly
\* (blocks nested in them must have their first instance rewritten, C01).
RECURSIVE Judge(_, _, _, _, _, _), JudgeSlots(_, _, _, _, _, _, _), JudgeList(_, _, _, _, _, _, _),
          JudgeStmts(_, _, _, _, _, _), Unexplained(_, _, _, _, _)

F(c, path) == {[c |-> c, at |-> path]}

Inner(l) == SubSeq(l, 2, Len(l) - 1)

\* s is an instance at an admissible position but o is not the instantiated
\* '+' pattern.  If o is s with (at most) nested instances rewritten, the
\* site was "missed"; otherwise it was rewritten to something else.
Unexplained(P, Q, s, o, path) ==
  IF s.k # o.k \/ Len(s.s) # Len(o.s) THEN F("wrongrepl", path)
  ELSE LET below == JudgeSlots(P, Q, s.s, o.s, 1, path, 0)
       IN IF \A f \in below : f.c = "missed" THEN F("missed", path) \cup below
          ELSE F("wrongrepl", path)

Judge(P, Q, s, o, ty, path) ==
  LET r == PMatch(P, s) IN
  IF r.ok /\ Admissible(ty, TopKind(Q, r.b, s))
  THEN IF IsStmts(Q) THEN JudgeStmts(P, Q, s, o, r.b, path)
       ELSE IF SubstRel(P, Q, Q, r.b, s, Strip(o))
            THEN (IF CopiesKept(Q, r.b, o) THEN {} ELSE F("wrongrepl", path))
            ELSE Unexplained(P, Q, s, o, path)
  ELSE IF s.k = "ParenExpr" /\ o.k # "ParenExpr" THEN Judge(P, Q, s.s[2].v[1], o, "Expr", Append(path, 2))
  ELSE IF s.k # o.k \/ Len(s.s) # Len(o.s) THEN F("collateral", path)
  ELSE JudgeSlots(P, Q, s.s, o.s, 1, path, 0)

\* skip = index of a slot that is judged elsewhere (0 = none)
JudgeSlots(P, Q, ss, os, i, path, skip) ==
  IF i > Len(ss) THEN {}
  ELSE LET a == ss[i]
           c == os[i]
           here == IF i = skip THEN {}
                   ELSE IF a.t # c.t THEN F("collateral", Append(path, i))
                   ELSE CASE a.t = "z" -> {}
                          [] a.t = "a" -> (IF a.a = c.a THEN {} ELSE F("collateral", Append(path, i)))
                          [] a.t = "n" -> Judge(P, Q, a.v[1], c.v[1], a.ty, Append(path, i))
                          [] a.t = "l" -> (IF Len(a.v) # Len(c.v) THEN F("collateral", Append(path, i))
                                           ELSE JudgeList(P, Q, a.v, c.v, 1, a.ty, Append(path, i)))
       IN here \cup JudgeSlots(P, Q, ss, os, i + 1, path, skip)

JudgeList(P, Q, al, cl, k, ty, path) ==
  IF k > Len(al) THEN {}
  ELSE Judge(P, Q, al[k], cl[k], ty, Append(path, k)) \cup JudgeList(P, Q, al, cl, k + 1, ty, path)

\* container s is an instance of the statement pattern P with binding b
JudgeStmts(P, Q, s, o, b, path) ==
  IF o.k # s.k \/ Len(o.s) # Len(s.s) THEN F("wrongrepl", path)
  ELSE
  LET li   == ListSlotIx(s.k)
      pre  == Get(b, "pre")
      post == Get(b, "post")
      ol   == o.s[li].v
      nmid == Len(ol) - Len(pre) - Len(post)
      lpath == Append(path, li)
  IN IF o.s[li].t # "l" \/ nmid < 0 THEN Unexplained(P, Q, s, o, path)
     ELSE LET opre  == SubSeq(ol, 1, Len(pre))
              omid  == StripSeq(SubSeq(ol, Len(pre) + 1, Len(pre) + nmid), 1)
              opost == SubSeq(ol, Len(pre) + nmid + 1, Len(ol))
              \* paths of post elements are reported relative to the input list
              shift == Len(s.s[li].v) - Len(post)
          IN IF ~SubstList(P, Q, Inner(Q.s[1].v), 1, b, omid, 1, s) THEN Unexplained(P, Q, s, o, path)
             ELSE JudgeList(P, Q, pre, opre, 1, "Stmt", lpath)
             \cup { [c |-> f.c, at |-> lpath \o <<f.at[Len(lpath) + 1] + shift>> \o SubSeq(f.at, Len(lpath) + 2, Len(f.at))] :
                      f \in JudgeList(P, Q, post, opost, 1, "Stmt", lpath) }
             \cup JudgeSlots(P, Q, s.s, o.s, 1, path, li)

\* number of outermost instances at admissible positions (coverage measure)
RECURSIVE CountSites(_, _, _, _), CountSeq(_, _, _, _, _)
CountSites(P, Q, s, ty) ==
  LET r == PMatch(P, s) IN
  IF r.ok /\ Admissible(ty, TopKind(Q, r.b, s)) THEN 1
  ELSE CountSeq(P, Q, s.s, 1, 0)
CountSeq(P, Q, ss, i, acc) ==
  IF i > Len(ss) THEN acc
  ELSE LET sl == ss[i]
           RECURSIVE Sum(_, _)
           Sum(k, a) == IF k > Len(sl.v) THEN a ELSE Sum(k + 1, a + CountSites(P, Q, sl.v[k], sl.ty))
       IN CountSeq(P, Q, ss, i + 1, Sum(1, acc))

\* ------------------------------------------- I-layer: what the engine does --
\* internal/engine/file.go: every node of the ORIGINAL tree is tested in
\* pre-order (nested instances too), then each match is replaced through
\* the parent pointer recorded at match time.  A replacement builds fresh
\* nodes; captured metavariable values are deep copies taken at match time,
\* elided runs (and the untouched fields of a statement container / loop
\* header) are shared by reference.  Hence a nested match is effective iff
\* its parent object survives: matches strictly below a shared element are,
\* matches AT a shared element or anywhere inside a copied metavariable value
\* are lost.  IRewrite is that behaviour as a function on terms.
RECURSIVE IRewrite(_, _, _, _), IBelow(_, _, _), IBelowSeq(_, _, _, _, _), IRewriteSeq(_, _, _, _, _),
          IBuild(_, _, _, _, _), IBuildList(_, _, _, _, _, _)

IRewriteSeq(P, Q, l, ty, i) ==
  IF i > Len(l) THEN <<>> ELSE <<IRewrite(P, Q, l[i], ty)>> \o IRewriteSeq(P, Q, l, ty, i + 1)

IBelowSlot(P, Q, sl) ==
  [t |-> sl.t, a |-> sl.a, ty |-> sl.ty, v |-> IRewriteSeq(P, Q, sl.v, sl.ty, 1)]

\* e itself is not tested (its parent was discarded), everything below is
IBelow(P, Q, e) == [k |-> e.k, s |-> [i \in 1..Len(e.s) |-> IBelowSlot(P, Q, e.s[i])]]

IBelowSeq(P, Q, l, i, acc) ==
  IF i > Len(l) THEN acc ELSE IBelowSeq(P, Q, l, i + 1, Append(acc, IBelow(P, Q, l[i])))

\* children of a slot that is copied by reference into a rebuilt node
ISharedSlot(P, Q, sl) ==
  [t |-> sl.t, a |-> sl.a, ty |-> sl.ty, v |-> IBelowSeq(P, Q, sl.v, 1, <<>>)]

IBuild(P, Q, q, b, s) ==
  IF IsMeta(q) THEN Get(b, MetaName(q))[1]
  ELSE IF IsForDots(q) THEN
       LET h  == Get(b, DotsId(q))[1]
           bi == BodySlotIx(h.k)
       IN [k |-> h.k,
           s |-> [i \in 1..Len(h.s) |->
                    IF i = bi THEN NodeSlot(h.s[i].ty, IBuild(P, Q, q.s[2].v[1], b, h.s[i].v[1]))
                    ELSE ISharedSlot(P, Q, h.s[i])]]
  ELSE IF IsStmts(q) THEN
       LET li == ListSlotIx(s.k)
       IN [k |-> s.k,
           s |-> [i \in 1..Len(s.s) |->
                    IF i = li THEN ListSlot(s.s[i].ty, IBuildList(P, Q, q.s[1].v, 1, b, s))
                    ELSE ISharedSlot(P, Q, s.s[i])]]
  ELSE [k |-> q.k,
        s |-> [i \in 1..Len(q.s) |->
                 LET a == q.s[i] IN
                 CASE a.t = "n" -> NodeSlot(a.ty, IBuild(P, Q, a.v[1], b, s))
                   [] a.t = "l" -> ListSlot(a.ty, IBuildList(P, Q, a.v, 1, b, s))
                   [] OTHER     -> a]]

IBuildList(P, Q, ql, i, b, s) ==
  IF i > Len(ql) THEN <<>>
  ELSE IF IsDots(ql[i])
       THEN IBelowSeq(P, Q, IF Has(b, DotsId(ql[i])) THEN Get(b, DotsId(ql[i])) ELSE <<>>, 1, <<>>)
            \o IBuildList(P, Q, ql, i + 1, b, s)
       ELSE <<IBuild(P, Q, ql[i], b, s)>> \o IBuildList(P, Q, ql, i + 1, b, s)

IRewrite(P, Q, s, ty) ==
  LET r == IMatch(P, s) IN
  IF r.ok /\ Admissible(ty, TopKind(Q, r.b, s)) THEN IBuild(P, Q, Q, r.b, s)
  ELSE IBelow(P, Q, s)

\* ------------------------------------------------ known-finding shapes --
\* C04/greedy-elision: P matches but the greedy, non-backtracking section
\* search of slice_dots.go does not.
RECURSIVE SubtermAt(_, _)
\* total: a path that ends at a slot (not at a node) denotes the owning node
SubtermAt(t, path) ==
  IF Len(path) = 0 THEN t
  ELSE LET sl == t.s[path[1]] IN
       IF sl.t = "n" THEN SubtermAt(sl.v[1], Tail(path))
       ELSE IF sl.t = "l" /\ Len(path) >= 2 /\ path[2] <= Len(sl.v) THEN SubtermAt(sl.v[path[2]], Tail(Tail(path)))
       ELSE t

GreedyMiss(P, s) == PMatch(P, s).ok /\ ~GreedyMatch(P, s).ok

\* C01/bare-nested-block: a block that is itself a statement of a rewritten
\* statement list is not rewritten (its parent object was discarded).
BareNestedBlock(P, root, path) ==
  /\ IsStmts(P)
  /\ Len(path) >= 2
  /\ SubtermAt(root, path).k = "BlockStmt"
  /\ LET parent == SubtermAt(root, SubSeq(path, 1, Len(path) - 2))
     IN parent.k \in StmtContainers /\ path[Len(path) - 1] = ListSlotIx(parent.k) /\ PMatch(P, parent).ok
====
