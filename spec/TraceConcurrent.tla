---- MODULE TraceConcurrent ----
(***************************************************************************)
(* Trace validation of gate-scheduled concurrent File.Apply calls (C14).   *)
(* Per run: a "start" line (source kind per call), one "pass" line per     *)
(* gate passage recorded by the scheduler (call, point), and an "end" line *)
(* with, per call, whether the bytes / error it returned equal what the    *)
(* same source gives when applied alone, plus the program hashes taken     *)
(* before the first and after every step.  A passage is consumed by        *)
(* Concurrent!Step; a passage the model does not allow marks the run as    *)
(* drifted (the observation is judged all the same).                       *)
(***************************************************************************)
EXTENDS Concurrent, Json

CONSTANTS TraceFile, OutFile
Trace == ndJsonDeserialize(TraceFile)

VARIABLES l, verdicts, stuck, phase
tvars == <<l, verdicts, stuck, phase>>
Ev == Trace[l]
IsEvent(name) == l <= Len(Trace) /\ Ev.ev = name /\ l' = l + 1

TraceInit == /\ l = 1 /\ verdicts = <<>> /\ stuck = FALSE /\ phase = "idle"
             /\ kinds = <<>> /\ pc = <<>> /\ base = <<>> /\ fsetNext = 1 /\ res = <<>> /\ prog = "compiled" /\ sched = <<>>

TraceStart == /\ IsEvent("start") /\ phase \in {"idle", "judged"}
              /\ phase' = "run" /\ stuck' = FALSE
              /\ kinds' = Ev.kinds
              /\ pc' = [c \in 1..Len(Ev.kinds) |-> 0] /\ base' = [c \in 1..Len(Ev.kinds) |-> 0] /\ fsetNext' = 1
              /\ res' = [c \in 1..Len(Ev.kinds) |-> ""] /\ prog' = "compiled" /\ sched' = <<>>
              /\ UNCHANGED verdicts

\* the recorded passage is a step of the model: same call, same point
TracePass == /\ IsEvent("pass") /\ phase = "run" /\ ~stuck
             /\ Ev.c \in Calls /\ Step(Ev.c) /\ Last(sched')[2] = Ev.p
             /\ UNCHANGED <<verdicts, stuck, phase>>
TraceSkip == /\ l <= Len(Trace) /\ Ev.ev = "pass" /\ phase = "run"
             /\ stuck \/ ~ENABLED TracePass
             /\ l' = l + 1 /\ stuck' = TRUE /\ UNCHANGED <<vars, verdicts, phase>>

SeqSet(s) == {s[i] : i \in 1..Len(s)}
TraceEnd ==
  /\ IsEvent("end") /\ phase = "run"
  /\ phase' = "judged"
  /\ UNCHANGED <<vars, stuck>>
  /\ verdicts' = Append(verdicts,
       [id |-> Ev.id,
        ieq |-> IF ~stuck /\ Done /\ Ev.extra = 0 /\ \A c \in Calls : Ev.classes[c] = res[c] THEN "1" ELSE "0",
        viol |-> SetToSeq(
            (IF \A c \in 1..Len(Ev.same) : Ev.same[c] = "1" THEN {} ELSE {"EachCallAsAlone"})
            \cup (IF Cardinality(SeqSet(Ev.hashes)) <= 1 THEN {} ELSE {"ParsedPatchImmutable"})
            \cup (IF Ev.race = "0" THEN {} ELSE {"NoDataRace"})
            \* a call that never returned (the scheduler timed out waiting for it)
            \cup (IF Ev.err = "" THEN {} ELSE {"EveryCallReturns"}))])

TraceNext == TraceStart \/ TracePass \/ TraceSkip \/ TraceEnd
TraceSpec == TraceInit /\ [][TraceNext]_<<vars, tvars>>
Flush == (l = Len(Trace) + 1) => ndJsonSerialize(OutFile, verdicts)
Accepted == TLCGet("stats").diameter - 1 = Len(Trace)
====
