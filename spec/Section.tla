---- MODULE Section ----
(***************************************************************************)
(* C19 / C13: the patch sectioner (internal/parse/section) and the         *)
(* metavariable section parser (internal/parse/meta.go, engine/meta.go)    *)
(* at the level of lines and tokens with column arithmetic.                *)
(*                                                                         *)
(* A patch is a sequence of changes; a change is                           *)
(*   pre   : comment ("#") and blank ("") lines before its header           *)
(*   hdr   : the header line, a sequence of tokens                         *)
(*   meta  : declaration lines, each a sequence of tokens                  *)
(*   body  : number of body lines (their content is irrelevant here)       *)
(* A token is [t |-> text, w |-> width, g |-> blanks before it].           *)
(*                                                                         *)
(* P-layer: OffendingPos = line and column, in the user's patch file, of   *)
(* the token the injected fault makes wrong.                               *)
(* I-layer: the sectioner's own arithmetic: byte offsets of line starts,   *)
(* the scratch buffer of a meta section (lines re-joined with "\n") and    *)
(* the (offset -> line, column) table that maps scratch positions back.    *)
(***************************************************************************)
EXTENDS Naturals, Sequences, FiniteSets, TLC, SequencesExt, FiniteSetsExt

CONSTANTS MaxChanges, Faults

\* comment ("#") and blank ("") lines in front of a header
Pres == {<<>>, <<"#">>, <<"#", "#">>, <<"">>, <<"", "#">>}

Tok(t, w, g) == [t |-> t, w |-> w, g |-> g]
\* header forms
HdrPlain == <<Tok("@@", 2, 0)>>
HdrNamed == <<Tok("@", 1, 0), Tok("name", 4, 1), Tok("@", 1, 1)>>
HdrTight == <<Tok("@", 1, 0), Tok("nm", 2, 0), Tok("@", 1, 0)>>
Hdrs == {HdrPlain, HdrNamed, HdrTight}
\* declaration lines
D1 == <<Tok("var", 3, 0), Tok("x", 1, 1), Tok("expression", 10, 1)>>
D2 == <<Tok("var", 3, 0), Tok("y", 1, 1), Tok(",", 1, 0), Tok("z", 1, 1), Tok("identifier", 10, 1)>>
D3 == <<Tok("var", 3, 2), Tok("w", 1, 3), Tok("expression", 10, 2)>>           \* indented, wide gaps
\* a comment line inside the metavariable section: skipped by the sectioner
\* (not part of the scratch buffer), but it is a line of the file
CM == <<Tok("#", 1, 0), Tok("note", 4, 1)>>
IsCmt(line) == Len(line) > 0 /\ line[1].t = "#"
\* an empty line inside the metavariable section (it is copied to the scratch buffer as a line of width 0)
EL == <<>>
Metas == {<<>>, <<D1>>, <<D1, D2>>, <<D3, D2>>, <<CM, D1>>, <<D1, CM, D2>>, <<D1, CM, CM>>, <<D1, EL, D2>>, <<EL, D3, CM, EL>>}

\* ---- faults: each replaces one line of one change by a faulty line and names
\* ---- the index of the offending token in it (0 = the end of the line)
FaultKinds == {"badname",     \* @ na-me @        : the bad character
               "badname8",    \* @ nAE-me @       : the same after a letter of two bytes ("AE" is rendered as a-umlaut; columns count bytes)
               "nothdr",      \* foo              : text where a header is expected
               "unktype",     \* var q strange    : the type name
               "dupname",     \* var x expression (again) : the second declaration of the name
               "notype",      \* var q            : where the type should be (end of line)
               "twodecl",     \* var q expression var r identifier : the second 'var'
               "novar",       \* q expression     : the first token
               \* declarations that are cut short: what offends is the token that follows where the declaration should
               \* go on - the first token of the next line of code, or the end of the section
               "noname",      \* var
               "trailcomma"}  \* var q,
FaultLine(k) ==
  CASE k = "badname" -> <<Tok("@", 1, 0), Tok("na", 2, 1), Tok("-", 1, 0), Tok("me", 2, 0), Tok("@", 1, 1)>>
    [] k = "badname8" -> <<Tok("@", 1, 0), Tok("nAE", 3, 1), Tok("-", 1, 0), Tok("me", 2, 0), Tok("@", 1, 1)>>
    [] k = "nothdr"  -> <<Tok("foo", 3, 0)>>
    [] k = "unktype" -> <<Tok("var", 3, 0), Tok("q", 1, 1), Tok("strange", 7, 1)>>
    [] k = "dupname" -> <<Tok("var", 3, 0), Tok("q", 1, 1), Tok(",", 1, 0), Tok("q", 1, 2), Tok("identifier", 10, 1)>>
    [] k = "notype"  -> <<Tok("var", 3, 0), Tok("q", 1, 1)>>
    [] k = "twodecl" -> <<Tok("var", 3, 0), Tok("q", 1, 1), Tok("expression", 10, 1), Tok("var", 3, 1), Tok("r", 1, 1), Tok("identifier", 10, 1)>>
    [] k = "novar"   -> <<Tok("q", 1, 1), Tok("expression", 10, 1)>>
    [] k = "noname"  -> <<Tok("var", 3, 0)>>
    [] k = "trailcomma" -> <<Tok("var", 3, 0), Tok("q", 1, 1), Tok(",", 1, 0)>>
Spill(k) == k \in {"noname", "trailcomma"}
FaultTok(k) ==
  CASE k = "badname" -> 3 [] k = "badname8" -> 3 [] k = "nothdr" -> 1 [] k = "unktype" -> 3 [] k = "dupname" -> 4
    [] k = "notype" -> 0 [] k = "twodecl" -> 4 [] k = "novar" -> 1 [] k = "noname" -> 0 [] k = "trailcomma" -> 0
InHeader(k) == k \in {"badname", "badname8", "nothdr"}

\* ---- geometry of a line
RECURSIVE WidthUpTo(_, _)
WidthUpTo(line, n) == IF n = 0 THEN 0 ELSE WidthUpTo(line, n - 1) + line[n].g + line[n].w
LineWidth(line) == WidthUpTo(line, Len(line))
\* 1-based column of token n; n = 0 means "just past the end of the line"
ColOf(line, n) == IF n = 0 THEN LineWidth(line) + 1 ELSE WidthUpTo(line, n - 1) + line[n].g + 1

Change == [pre : Pres, hdr : Hdrs, meta : Metas, body : 2..3]
Patches == UNION {[1..n -> Change] : n \in 1..MaxChanges}

\* lines of a change in file order: pre, header, meta..., "@@", body...
NLines(c) == Len(c.pre) + 1 + Len(c.meta) + 1 + c.body
RECURSIVE LinesBefore(_, _)
LinesBefore(p, k) == IF k = 1 THEN 0 ELSE LinesBefore(p, k - 1) + NLines(p[k - 1])

\* fault = [c |-> change, k |-> kind, m |-> meta line index (0 for header faults; Len+1 = appended)]
\* (text in place of a header is only a header fault in the first change: later
\* on it would simply be one more line of the previous change's body)
FaultsOf(p) ==
  UNION {{[c |-> c, k |-> k, m |-> 0] : k \in {x \in Faults : InHeader(x) /\ (x = "nothdr" => c = 1)}} : c \in 1..Len(p)}
  \cup UNION {{[c |-> c, k |-> k, m |-> m] : k \in {x \in Faults : ~InHeader(x)}, m \in 1..(Len(p[c].meta) + 1)} : c \in 1..Len(p)}

\* the faulty line replaces the header, or is inserted as meta line m
\* ------------------------------------------------------------- P-layer --
MetaLines(p, f) ==      \* token lines of the meta section of change f.c with the fault inserted
  LET m == p[f.c].meta IN
  IF f.m = 0 THEN m ELSE SubSeq(m, 1, f.m - 1) \o <<FaultLine(f.k)>> \o SubSeq(m, f.m, Len(m))
\* lines of code (not comments, not empty) after meta line m
NextCode(ml, m) == {i \in (m + 1)..Len(ml) : Len(ml[i]) > 0 /\ ~IsCmt(ml[i])}
\* the last line of the section that is not a comment (empty lines are lines of the section)
LastSectionLine(ml) == Max({i \in 1..Len(ml) : ~IsCmt(ml[i])})
OffendingPos(p, f) ==
  LET base == LinesBefore(p, f.c) + Len(p[f.c].pre)
      line == IF f.m = 0 THEN base + 1 ELSE base + 1 + f.m
      ml   == MetaLines(p, f)
  IN IF f.m > 0 /\ Spill(f.k)
     THEN IF NextCode(ml, f.m) # {}
          THEN LET i == Min(NextCode(ml, f.m)) IN [line |-> base + 1 + i, col |-> ml[i][1].g + 1]
          \* nothing follows: the end of the section, i.e. of its last line
          ELSE LET i == LastSectionLine(ml) IN [line |-> base + 1 + i, col |-> LineWidth(ml[i]) + 1]
     ELSE [line |-> line, col |-> ColOf(FaultLine(f.k), FaultTok(f.k))]

\* ------------------------------------------------------------- I-layer --
\* byte offset of the start of each line (every line is followed by "\n"),
\* the sectioner's Line.StartPos, and the LinePos table of section.ToBytes:
\* scratch offset of meta line j -> (file line, column 1)
RECURSIVE MetaScratchOff(_, _)
MetaScratchOff(ml, j) == IF j = 1 THEN 0 ELSE MetaScratchOff(ml, j - 1) + LineWidth(ml[j - 1]) + 1
\* position reported for scratch offset off: the table entry with the greatest
\* offset <= off gives (line, col); the column advances by the distance.
\* Comment lines are not copied to the scratch buffer; the table maps the
\* j-th copied line to the file line it came from.
NonCmtIdx(ml) == {i \in 1..Len(ml) : ~IsCmt(ml[i])}
IPos(p, f) ==
  LET ml   == MetaLines(p, f)
      base == LinesBefore(p, f.c) + Len(p[f.c].pre)
  IN IF f.m = 0
     THEN \* header errors: programSplitter.errf(startOffset + shift + i): a byte offset in the file
          [line |-> base + 1, col |-> ColOf(FaultLine(f.k), FaultTok(f.k))]
     ELSE LET keep  == SetToSortSeq(NonCmtIdx(ml), LAMBDA a, b : a < b)       \* file-order indexes of the copied lines
              sl    == [j \in 1..Len(keep) |-> ml[keep[j]]]                   \* the scratch buffer's lines
              fj    == CHOOSE j \in 1..Len(keep) : keep[j] = f.m              \* the faulty line in the scratch buffer
              \* a declaration that is cut short is noticed at the next token of the scratch buffer: the first token
              \* of the next non-empty line, or its end; the end lies one past the newline of the last line and is
              \* reported one byte earlier (metaParser.errf, since the repair of end-of-section-reported-past-the-line)
              nxt   == {j \in (fj + 1)..Len(sl) : Len(sl[j]) > 0}
              off   == IF Spill(f.k)
                       THEN IF nxt # {} THEN MetaScratchOff(sl, Min(nxt)) + sl[Min(nxt)][1].g
                            ELSE MetaScratchOff(sl, Len(sl)) + LineWidth(sl[Len(sl)]) + 1 - 1
                       ELSE MetaScratchOff(sl, fj) + ColOf(sl[fj], FaultTok(f.k)) - 1
              entry == CHOOSE j \in 1..Len(sl) : MetaScratchOff(sl, j) <= off /\ \A i \in 1..Len(sl) : MetaScratchOff(sl, i) <= off => i <= j
          IN [line |-> base + 1 + keep[entry], col |-> 1 + (off - MetaScratchOff(sl, entry))]

VARIABLES patch, fault
vars == <<patch, fault>>
\* two steps (the patch, then the fault) so that TLC's workers share the enumeration
NoFault == [c |-> 0, k |-> "none", m |-> 0]
Init == patch \in Patches /\ fault = NoFault
Next == fault = NoFault /\ fault' \in FaultsOf(patch) /\ UNCHANGED patch
Spec == Init /\ [][Next]_vars
DesignOK == fault # NoFault => IPos(patch, fault) = OffendingPos(patch, fault)
====
