---- MODULE TraceRewrite ----
(***************************************************************************)
(* Trace validation for the rewrite family (C01, C02, C03, C04, C05).      *)
(* Each line of CasesFile is one recorded execution of the real            *)
(* patch.Parse + File.Apply (harness/rewrite.go): the abstract pattern,    *)
(* the abstraction of the parsed input file and of the re-parsed output.   *)
(* One step consumes one record and evaluates the P-layer judge on it;     *)
(* the verdict records are written to OutFile when the trace is consumed.  *)
(***************************************************************************)
EXTENDS Pattern, Json, SequencesExt

CONSTANTS CasesFile, OutFile

Cases == ndJsonDeserialize(CasesFile)

VARIABLES l, verdicts
vars == <<l, verdicts>>

\* failure classes of one case
Fails(c) ==
  IF c.err # "" THEN {[c |-> "error", at |-> <<>>]}
  \* a package / import guard of the change does not hold for this file: no effect at all (C10)
  ELSE IF c.guard = "fail" THEN (IF c.in = c.out /\ c.changed = "0" THEN {} ELSE {[c |-> "collateral", at |-> <<>>]})
  ELSE Judge(c.pat, c.plus, c.in, c.out, "Node", <<>>)

\* Known findings (see known_findings.jsonl): a failing record is reported
\* as KNOWN-FINDING iff the operator named like its key holds of it.
KF_C04_greedy_elision(c, f) ==
  /\ f.c = "missed"
  /\ GreedyMiss(c.pat, SubtermAt(c.in, f.at))

KF_C01_bare_nested_block(c, f) ==
  /\ f.c = "missed"
  /\ BareNestedBlock(c.pat, c.in, f.at)

KnownKey(c, f) ==
  IF c.err # "" THEN ""
  ELSE IF KF_C04_greedy_elision(c, f) THEN "C04/greedy-elision"      \* fixed: reported, not suppressed
  ELSE IF KF_C01_bare_nested_block(c, f) THEN "C01/bare-nested-block"
  ELSE ""

\* drift: the real output equals the I-layer prediction (modulo parentheses)
IEq(c) == c.err # "" \/ c.guard = "fail" \/ Strip(IRewrite(c.pat, c.plus, c.in, "Node")) = Strip(c.out)

Verdict(c) ==
  LET fs == Fails(c)
  IN [id |-> c.id,
      ok |-> IF fs = {} THEN "1" ELSE "0",
      fails |-> SetToSeq({[c |-> f.c, at |-> f.at, known |-> KnownKey(c, f)] : f \in fs}),
      ieq |-> IF IEq(c) THEN "1" ELSE "0",
      sites |-> IF c.err # "" \/ c.guard = "fail" THEN 0 ELSE CountSites(c.pat, c.plus, c.in, "Node"),
      \* instances per the P-layer, also for cases that ended in an error (C06: none => no effect, no error)
      psites |-> IF c.guard = "fail" THEN 0 ELSE CountSites(c.pat, c.plus, c.in, "Node"),
      err |-> c.err]

Init == l = 1 /\ verdicts = <<>>

Consume ==
  /\ l <= Len(Cases)
  /\ verdicts' = Append(verdicts, Verdict(Cases[l]))
  /\ l' = l + 1

Next == Consume
Spec == Init /\ [][Next]_vars

\* written once, when the whole trace has been consumed
Flush == (l = Len(Cases) + 1) => ndJsonSerialize(OutFile, verdicts)

\* every record was consumed (one state per record plus the initial state)
Accepted == TLCGet("stats").diameter - 1 = Len(Cases)
====
