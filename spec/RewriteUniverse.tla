---- MODULE RewriteUniverse ----
(***************************************************************************)
(* Bounded universes of (pattern, replacement) pairs and subjects for the  *)
(* rewrite family, the design check  I => P  over them, and the emission   *)
(* of the same universes as vectors that are replayed into the real        *)
(* patch.Parse / File.Apply.                                               *)
(*                                                                         *)
(* One behaviour = one (P, Q) pair: the machine scans the subjects one per *)
(* step (this is the per-site loop of FileMatcher.Match/FileReplacer.      *)
(* Replace; sites are independent), computing what the engine would        *)
(* produce (Pattern!IRewrite) and judging it with the reference semantics  *)
(* (Pattern!Judge).                                                        *)
(***************************************************************************)
EXTENDS Pattern, Json, SequencesExt, FiniteSetsExt

CONSTANTS Universe,   \* "expr" | "meta" | "multi" | "args" | "elts" | "stmts" | "params" | "fields"
          MaxArgs,    \* bound on pattern list length
          MaxList     \* bound on subject list length (elision universes)

\* ------------------------------------------------------- constructors ----
\* These must agree with harness/alpha.go; the harness checks that
\* alpha(parse(render(t))) = t for every emitted term.
Id(n)         == [k |-> "Ident", s |-> <<AtomSlot("1"), AtomSlot(n)>>]
Lit(v)        == [k |-> "BasicLit", s |-> <<AtomSlot("1"), AtomSlot("INT"), AtomSlot(v)>>]
Call(f, args) == [k |-> "CallExpr", s |-> <<NodeSlot("Expr", f), AtomSlot("1"), ListSlot("Expr", args), AtomSlot("0"), AtomSlot("1")>>]
Bin(op, x, y) == [k |-> "BinaryExpr", s |-> <<NodeSlot("Expr", x), AtomSlot("1"), AtomSlot(op), NodeSlot("Expr", y)>>]
Sel(x, n)     == [k |-> "SelectorExpr", s |-> <<NodeSlot("Expr", x), NodeSlot("Ident", Id(n))>>]
Comp(ty, l)   == [k |-> "CompositeLit", s |-> <<NodeSlot("Expr", ty), AtomSlot("1"), ListSlot("Expr", l), AtomSlot("1"), AtomSlot("false")>>]
ExprStmt(x)   == [k |-> "ExprStmt", s |-> <<NodeSlot("Expr", x)>>]
Block(l)      == [k |-> "BlockStmt", s |-> <<AtomSlot("1"), ListSlot("Stmt", l), AtomSlot("1")>>]
Stmts(l)      == [k |-> "@stmts", s |-> <<ListSlot("Stmt", <<[k |-> "@dots", s |-> <<AtomSlot("pre")>>]>> \o l \o <<[k |-> "@dots", s |-> <<AtomSlot("post")>>]>>)>>]
NilSlot(ty)   == [t |-> "z", a |-> "", ty |-> ty, v |-> <<>>]
\* a parameter / struct field "n T": Names, Type, Tag
Fld(n, ty)    == [k |-> "Field", s |-> <<ListSlot("Ident", <<Id(n)>>), NodeSlot("Expr", Id(ty)), NilSlot("BasicLit")>>]
FList(l)      == [k |-> "FieldList", s |-> <<AtomSlot("1"), ListSlot("Field", l), AtomSlot("1")>>]
\* func(<params>)  (a function type; printed on one line)  and  struct{ <fields> }
FuncLitP(l)   == [k |-> "FuncType", s |-> <<AtomSlot("1"), NilSlot("FieldList"), NodeSlot("FieldList", FList(l)), NilSlot("FieldList")>>]
StructT(l)    == [k |-> "StructType", s |-> <<AtomSlot("1"), NodeSlot("FieldList", FList(l)), AtomSlot("false")>>]
Meta(n, kind) == [k |-> "@meta", s |-> <<AtomSlot(n), AtomSlot(kind)>>]
Dots(id)      == [k |-> "@dots", s |-> <<AtomSlot(id)>>]

X == Meta("x", "expr")
Y == Meta("y", "expr")
I == Meta("i", "ident")

SeqsUpTo(S, n) == UNION {[1..m -> S] : m \in 0..n}
NDots(l)       == Cardinality({i \in DOMAIN l : IsDots(l[i])})
NoAdjDots(l)   == \A i \in 1..(Len(l) - 1) : ~(IsDots(l[i]) /\ IsDots(l[i + 1]))

RECURSIVE MetasOf(_), MetasOfSeq(_, _)
MetasOf(t) ==
  IF IsMeta(t) THEN {t}
  ELSE UNION {MetasOfSeq(t.s[i].v, 1) : i \in 1..Len(t.s)}
MetasOfSeq(l, i) == IF i > Len(l) THEN {} ELSE MetasOf(l[i]) \cup MetasOfSeq(l, i + 1)

RECURSIVE DotsOf(_), DotsOfSeq(_, _)
DotsOf(t) ==
  IF IsDots(t) THEN {DotsId(t)}
  ELSE UNION {DotsOfSeq(t.s[i].v, 1) : i \in 1..Len(t.s)}
DotsOfSeq(l, i) == IF i > Len(l) THEN {} ELSE DotsOf(l[i]) \cup DotsOfSeq(l, i + 1)

\* ------------------------------------------------- universe "expr" -------
\* expression patterns with metavariables and at most one elision, against
\* expressions of depth <= 3 (C01, C03)
EAtoms == {Id("a"), Lit("1"), X, Y}
EArgs  == {l \in SeqsUpTo(EAtoms \cup {Dots("d1")}, MaxArgs) : NDots(l) <= 1}
EPats  == {Call(fn, l) : fn \in {Id("f"), I}, l \in EArgs}
          \cup {Bin("+", u, v) : u, v \in {Id("a"), X, Y}}
          \cup {Sel(u, "m") : u \in {X, I, Id("a")}}
          \cup {Call(Id("f"), <<Call(Id("g"), <<X>>), Y>>), Call(Id("f"), <<Call(Id("g"), <<Dots("d1")>>)>>),
                Id("a")}

\* replacement menu; a replacement may only use what the pattern binds
EQMenu == {Call(Id("h"), <<X>>), Call(Id("h"), <<X, X>>), Call(Id("h"), <<Y, X>>), Call(Id("h"), <<X, Y>>),
           Call(I, <<Lit("2")>>), Call(Id("h"), <<Dots("d1")>>), Call(Id("h"), <<Lit("2"), Dots("d1"), X>>),
           X, Sel(X, "n"), Bin("+", X, Lit("2")), Id("b"), Sel(Id("b"), "c"), Call(Id("f"), <<Id("a")>>)}
RECURSIVE IdentsOf(_), IdentsOfSeq(_, _)
IdentsOf(t) ==
  IF t.k = "Ident" THEN {t.s[2].a}
  ELSE IF IsMeta(t) \/ IsDots(t) THEN {}
  ELSE UNION {IdentsOfSeq(t.s[i].v, 1) : i \in 1..Len(t.s)}
IdentsOfSeq(l, i) == IF i > Len(l) THEN {} ELSE IdentsOf(l[i]) \cup IdentsOfSeq(l, i + 1)

\* a replacement may only use what the pattern binds, and a plain identifier
\* must not be spelled like a declared metavariable
UsesOK(p, q) == /\ MetasOf(q) \subseteq MetasOf(p)
                /\ DotsOf(q) \subseteq DotsOf(p)
                /\ {MetaName(m) : m \in MetasOf(p)} \cap (IdentsOf(p) \cup IdentsOf(q)) = {}
EPairs == {<<p, q>> \in EPats \X EQMenu : UsesOK(p, q) /\ p # q}

SAtoms == {Id("a"), Id("b"), Lit("1")}
S1 == SAtoms
      \cup {Call(Id(f), l) : f \in {"f", "g"}, l \in SeqsUpTo(SAtoms, 2)}
      \cup {Bin("+", u, v) : u, v \in SAtoms}
      \cup {Sel(u, "m") : u \in SAtoms}
SK == {Id("a"), Lit("1"), Call(Id("f"), <<Id("a")>>), Call(Id("f"), <<Lit("1")>>), Call(Id("g"), <<Id("a")>>),
       Call(Id("f"), <<Id("a"), Id("a")>>), Call(Id("f"), <<Id("a"), Lit("1")>>), Bin("+", Id("a"), Id("a")),
       Call(Id("f"), <<>>), Sel(Id("a"), "m")}
ESubjects == S1
      \cup {Call(Id("f"), <<t>>) : t \in S1}
      \cup {Call(Id("f"), <<t, u>>) : t, u \in SK}
      \cup {Call(Id("f"), <<t, u, w>>) : t, u, w \in {Id("a"), Lit("1")}}
      \cup {Bin("+", t, u) : t, u \in SK}
      \cup {Sel(t, "m") : t \in SK}
      \cup {Call(Id("b"), <<t>>) : t \in SK}

\* ------------------------------------------------- universe "meta" -------
\* repeated metavariables of both kinds, equal / almost equal / different
\* fillers, names that look like metavariables but are not declared (C02)
MPats == {Call(Id("f"), <<X, X>>), Call(Id("f"), <<X, Y>>), Call(Id("f"), <<X, Call(Id("g"), <<X>>)>>),
          Call(Id("f"), <<X, Y, X>>), Bin("+", X, X), Call(I, <<I>>), Call(I, <<Sel(I, "m")>>),
          Call(Id("f"), <<I, I>>), Call(Id("f"), <<Dots("d1"), X, X>>), Call(Id("f"), <<X, Dots("d1"), X>>),
          Call(Id("f"), <<Id("y"), X>>), Call(Id("f"), <<Id("y")>>), Call(Id("f"), <<I>>), Call(Id("f"), <<X>>),
          Call(Call(Id("f"), <<X>>), <<X>>), Sel(Call(Id("f"), <<I>>), "m")}
MQMenu == {Call(Id("h"), <<X>>), Call(Id("h"), <<Y, X>>), Call(Id("h"), <<I>>), Call(Id("h"), <<Dots("d1"), X>>),
           Call(Id("h"), <<Id("x")>>), Sel(I, "k"), Id("b")}
MPairs == {<<p, q>> \in MPats \X MQMenu : UsesOK(p, q)}
\* (the last four: compound code in which an identifier is spelled like a declared
\*  metavariable - in the target it is an ordinary identifier)
MFill == {Id("a"), Id("b"), Id("x"), Id("y"), Lit("1"), Call(Id("g"), <<Id("a")>>), Call(Id("g"), <<Id("b")>>),
          Bin("+", Id("a"), Id("b")), Bin("+", Id("b"), Id("a")), Sel(Id("a"), "m"), Call(Id("g"), <<Call(Id("g"), <<Id("a")>>)>>),
          Sel(Id("x"), "m"), Sel(Id("y"), "m"), Call(Id("g"), <<Id("x")>>), Call(Id("g"), <<Id("i")>>)}
MSubjects == {Call(Id("f"), <<t, u>>) : t, u \in MFill}
      \cup {Call(Id("f"), <<t>>) : t \in MFill}
      \cup {Call(Id("f"), <<t, u, w>>) : t, u, w \in {Id("a"), Id("b"), Call(Id("g"), <<Id("a")>>)}}
      \cup {Bin("+", t, u) : t, u \in MFill}
      \cup {Call(t, <<u>>) : t, u \in {Id("a"), Id("b"), Sel(Id("a"), "m"), Sel(Id("b"), "m")}}
      \cup {Call(Call(Id("f"), <<t>>), <<u>>) : t, u \in {Id("a"), Id("b")}}
      \cup {Sel(Call(Id("f"), <<t>>), "m") : t \in MFill}

\* ------------------------------------------- universes "args"/"elts"/"stmts"
\* elision: every pattern list over {a, b, x, ...} with >= 1 elision and no
\* two adjacent elisions, against every list over {a, b} (C04)
IsFieldKind(kind) == kind \in {"params", "fields"}
LElem(kind, n) == IF kind = "stmts" THEN ExprStmt(Call(Id(n), <<>>)) ELSE IF IsFieldKind(kind) THEN Fld(n, "int") ELSE Id(n)
\* (in field lists the metavariable is the name of the field: an identifier metavariable)
LMeta(kind)    == IF kind = "stmts" THEN ExprStmt(Call(Id("f"), <<X>>))
                  ELSE IF IsFieldKind(kind) THEN [k |-> "Field", s |-> <<ListSlot("Ident", <<I>>), NodeSlot("Expr", Id("int")), NilSlot("BasicLit")>>]
                  ELSE X
\* symbols: "a", "b", "x" (metavariable), "." (elision)
Syms == {"a", "b", "x", "."}
SymPats == {l \in SeqsUpTo(Syms, MaxArgs) : /\ Len(l) > 0
                                            /\ (\E i \in DOMAIN l : l[i] = ".")
                                            /\ (\A j \in 1..(Len(l) - 1) : ~(l[j] = "." /\ l[j + 1] = "."))}
\* the k-th elision of a list gets id d<k>
DotIx(l, i) == Cardinality({j \in 1..i : l[j] = "."})
DName(k) == CASE k = 1 -> "d1" [] k = 2 -> "d2" [] k = 3 -> "d3" [] OTHER -> "d4"
PElems(kind, l) == [i \in DOMAIN l |->
                      CASE l[i] = "." -> Dots(DName(DotIx(l, i)))
                        [] l[i] = "x" -> LMeta(kind)
                        [] OTHER      -> LElem(kind, l[i])]
\* replacement: every explicit element becomes c, metavariables and
\* elisions are reproduced in place
QElems(kind, l) == [i \in DOMAIN l |->
                      CASE l[i] = "." -> Dots(DName(DotIx(l, i)))
                        [] l[i] = "x" -> LMeta(kind)
                        [] OTHER      -> LElem(kind, "c")]
LWrapP(kind, l) == CASE kind = "args"  -> Call(Id("f"), l)
                     [] kind = "params" -> Call(Id("w"), <<FuncLitP(l)>>)    \* (a pattern cannot START with a func literal)
                     [] kind = "fields" -> Call(Id("new"), <<StructT(l)>>)
                     [] kind = "elts"  -> Comp(Id("t_T"), l)
                     [] kind = "stmts" -> Stmts(l)
LWrapQ(kind, l) == CASE kind = "args"  -> Call(Id("h"), l)
                     [] kind = "params" -> Call(Id("w"), <<FuncLitP(l)>>)    \* (a pattern cannot START with a func literal)
                     [] kind = "fields" -> Call(Id("new"), <<StructT(l)>>)
                     [] kind = "elts"  -> Comp(Id("t_U"), l)
                     [] kind = "stmts" -> Stmts(l)
LWrapS(kind, l) == CASE kind = "args"  -> Call(Id("f"), l)
                     [] kind = "params" -> Call(Id("w"), <<FuncLitP(l)>>)    \* (a pattern cannot START with a func literal)
                     [] kind = "fields" -> Call(Id("new"), <<StructT(l)>>)
                     [] kind = "elts"  -> Comp(Id("t_T"), l)
                     [] kind = "stmts" -> Block(l)
SFill(kind, n) == IF kind = "stmts"
                  THEN (IF n = "fa" THEN ExprStmt(Call(Id("f"), <<Id("a")>>)) ELSE ExprStmt(Call(Id(n), <<>>)))
                  ELSE IF IsFieldKind(kind) THEN Fld(n, "int")
                  ELSE Id(n)
\* subject elements: a, b and (for the metavariable) f(a) in statement lists
SubjSyms(kind) == IF kind = "stmts" THEN {"a", "b", "fa"} ELSE {"a", "b"}
\* statement patterns carry an implicit elision at both ends, so an explicit
\* one there is redundant (and adjacent to the implicit one): not generated
SymPatsOf(kind) == IF kind = "stmts" THEN {l \in SymPats : l[1] # "." /\ l[Len(l)] # "."} ELSE SymPats
LPairs(kind) == {<<LWrapP(kind, PElems(kind, l)), LWrapQ(kind, QElems(kind, l))>> :
                   l \in {m \in SymPatsOf(kind) : \E i \in DOMAIN m : m[i] \in {"a", "b"}}}
LSubjects(kind) == {LWrapS(kind, [i \in DOMAIN l |-> SFill(kind, l[i])]) : l \in SeqsUpTo(SubjSyms(kind), MaxList)}

\* ------------------------------------------------- universe "multi" ------
\* several elisions with repeated metavariables in one list: an earlier
\* candidate position binds a metavariable and fails later, so the search
\* has to come back with the binding undone (C02, C04)
MultiSyms == {<<".", "x", ".", "x">>, <<"x", ".", "x", ".">>, <<".", "x", ".", "x", ".">>,
              <<".", "x", ".", "y", ".", "x">>, <<"x", ".", "y", ".", "x">>, <<".", "a", ".", "x", ".", "x">>,
              <<".", "x", "x", ".", "x">>, <<".", "x", ".", "y", ".", "x", ".", "y">>}
MElems(l) == [i \in DOMAIN l |->
                CASE l[i] = "." -> Dots(DName(DotIx(l, i)))
                  [] l[i] = "x" -> X
                  [] l[i] = "y" -> Y
                  [] OTHER      -> Id(l[i])]
MultiPairs == {<<Call(Id("f"), MElems(l)), Call(Id("h"), MElems(l))>> : l \in MultiSyms}
MultiSubjects == {Call(Id("f"), [i \in DOMAIN l |-> Id(l[i])]) : l \in SeqsUpTo({"a", "b"}, MaxList)}

\* ------------------------------------------------------------ selection --
Pairs == CASE Universe = "expr" -> EPairs
           [] Universe = "meta" -> MPairs
           [] Universe = "multi" -> MultiPairs
           [] OTHER -> LPairs(Universe)
Subjects == CASE Universe = "expr" -> ESubjects
              [] Universe = "meta" -> MSubjects
              [] Universe = "multi" -> MultiSubjects
              [] OTHER -> LSubjects(Universe)
RootTy == IF Universe = "stmts" THEN "Stmt" ELSE "Expr"

PairSeq == SetToSeq(Pairs)
SubjSeq == SetToSeq(Subjects)

====
