---- MODULE EmitComments ----
(* Writes a TLC-chosen sample of the file universe of Comments.tla: files   *)
(* of 1..MaxDecls slots, each slot drawn from PerPos random slots, with at  *)
(* least one touched slot.                                                  *)
EXTENDS Comments, Json, Randomization
CONSTANTS OutFile, PerPos, NHeaders
S1 == RandomSubset(PerPos, Slots)
S2 == RandomSubset(PerPos, Slots)
S3 == RandomSubset(PerPos, Slots)
H  == RandomSubset(NHeaders, Headers)
Seqs == {<<a>> : a \in S1} \cup {<<a, b>> : a \in S1, b \in S2}
        \cup (IF MaxDecls >= 3 THEN {<<a, b, c>> : a \in S1, b \in S2, c \in S3} ELSE {})
Sample == {[hdr |-> h, decls |-> d] : h \in H, d \in {x \in Seqs : \E i \in 1..Len(x) : x[i].touch # "none"}}
\* Structured part: every pair (touched declaration, untouched neighbour), both orders,
\* and every header in front of a touched first declaration; PerClass of each (0 = all).
CONSTANTS PerClass
Pick(n, S) == IF n = 0 \/ Cardinality(S) <= n THEN S ELSE RandomSubset(n, S)
NoHdr == [build |-> "none", lic |-> "none", pkgdoc |-> "none", pkgtrail |-> "none"]
T == {s \in Slots : s.touch # "none" /\ s.inner = "none" /\ s.gap = "none" /\ s.doc \in {"none", "line"}}
U == {s \in Slots : s.touch = "none" /\ s.inner \in {"none", "eol"}}
U4 == {s \in U : s.kind = "func" /\ s.inner = "none" /\ s.trail = "none" /\ s.doc \in {"none", "multi"}}
Structured ==
  Pick(PerClass, {[hdr |-> NoHdr, decls |-> <<t, u>>] : t \in T, u \in U})
  \cup Pick(PerClass, {[hdr |-> NoHdr, decls |-> <<u, t>>] : t \in T, u \in U})
  \cup Pick(PerClass, {[hdr |-> h, decls |-> <<t, u>>] : h \in Headers, t \in T, u \in U4})
  \cup Pick(PerClass, {[hdr |-> h, decls |-> <<t>>] : h \in Headers, t \in T})
  \* two touched declarations (two changes of one patch) around an untouched, commented one
  \cup Pick(PerClass, {[hdr |-> NoHdr, decls |-> <<t1, u, t2>>] : t1, t2 \in {t \in T : t.touch = "decl" /\ t.doc = "none" /\ t.trail = "none"},
                                                                     u \in {x \in U : x.inner = "eol" /\ x.gap = "free"}})
  \* two rewritten expression sites (one change, two matches) in functions around an untouched, commented declaration
  \cup Pick(PerClass, {[hdr |-> NoHdr, decls |-> <<t1, u, t2>>] : t1, t2 \in {t \in T : t.touch = "expr" /\ t.kind = "func" /\ t.trail = "none"},
                                                                     u \in {x \in U : x.doc # "none" \/ x.inner = "eol" \/ x.trail # "none"}})
VARIABLE emitted
EmitInit == emitted = ndJsonSerialize(OutFile, SetToSeq(Sample \cup Structured))
EmitSpec == EmitInit /\ [][UNCHANGED emitted]_emitted
====
