---- MODULE Imports ----
(***************************************************************************)
(* C10 / C11: package and import clauses of a change.                      *)
(*                                                                         *)
(* Vocabulary (all values are strings so that recorded executions can be   *)
(* read back as JSON):                                                     *)
(*   patch import  [side, form, name, path]                                *)
(*       side  "ctx" (context line: on both sides) | "minus" | "plus"      *)
(*       form  "unnamed" | "lit" (literal name) | "meta" (the name is an   *)
(*             identifier metavariable)                                    *)
(*   file import   [name, path]          name "" = unnamed                 *)
(*   scenario      [pkg, pimps, fimps, uses]                               *)
(*       pkg    package clause of the patch ("" = none); files are         *)
(*              "package a"                                                *)
(*       uses   the names that the REWRITTEN file still uses as the base   *)
(*              of a selector and that do not resolve to a local           *)
(*              declaration (what "the rewritten file refers to the        *)
(*              package name" means).  In the design check it is a free    *)
(*              parameter, in trace validation it is observed on the real  *)
(*              output by an independent observer.                         *)
(*                                                                         *)
(* P-layer (from the statements of C10 and C11 and docs/PatchesInDepth.md):*)
(*   GuardsHold, C11_OK.                                                   *)
(* I-layer (transcription of internal/engine/import.go and file.go):       *)
(*   IMatch (FileMatcher.Match: package test, ImportMatcher 4-case table,  *)
(*   metavariable store threaded through), IAdd (ImportsReplacer.Replace   *)
(*   with astutil.AddNamedImport), ICleanup (ImportsReplacer.Cleanup with  *)
(*   astutil.DeleteNamedImport).                                           *)
(***************************************************************************)
EXTENDS Naturals, Sequences, FiniteSets, TLC, SequencesExt, FiniteSetsExt

CONSTANTS PatchPaths,   \* import paths a patch may mention
          OtherPaths,   \* import paths only files have
          MaxPatchImps, \* import lines per change
          Mode          \* "guards" (C10 universe) | "edits" (C11 universe)

\* the package name an import path is assumed to provide, as the Go tools assume it: its last element, or the
\* one before it when the last is a major version ("example.com/x/v2" provides x)
Base(path) == CASE path = "x/p" -> "p" [] path = "y/p" -> "p" [] path = "x/q" -> "q" [] path = "x/v2" -> "x"
                [] path = "x/o" -> "o" [] path = "fmt" -> "fmt" [] OTHER -> "unknown"
Alt(path) == "alt" \o Base(path)          \* a local name different from the base name

SeqToSet(s) == {s[i] : i \in 1..Len(s)}

\* ---------------------------------------------------------------- universe --
Forms == {"unnamed", "lit", "meta"}
PImpsOf(path) ==
  {[side |-> sd, form |-> "unnamed", name |-> "", path |-> path] : sd \in {"ctx", "minus", "plus"}}
  \cup {[side |-> sd, form |-> "lit", name |-> n, path |-> path] : sd \in {"ctx", "minus", "plus"}, n \in {Base(path), Alt(path), ".", "_"}}
  \cup {[side |-> sd, form |-> "meta", name |-> Base(path), path |-> path] : sd \in {"ctx", "minus", "plus"}}
PImps == UNION {PImpsOf(p) : p \in PatchPaths}
GuardSide(pi) == pi.side \in {"ctx", "minus"}
PlusSide(pi)  == pi.side \in {"ctx", "plus"}

WellFormedPatch(ps) ==
  \* one line per (path, half): a path occurs at most once among the '-'/context
  \* lines and at most once among the '+'/context lines
  /\ \A i, j \in 1..Len(ps) : (i # j /\ ps[i].path = ps[j].path) =>
        /\ {ps[i].side, ps[j].side} = {"minus", "plus"}
        \* (an identical '-'/'+' pair is a context line written twice: not generated)
        /\ <<ps[i].form, ps[i].name>> # <<ps[j].form, ps[j].name>>
  \* a metavariable name on a '+' line is bound by a '-'/context import of the same metavariable
  /\ \A i \in 1..Len(ps) : (ps[i].side = "plus" /\ ps[i].form = "meta") =>
        \E j \in 1..Len(ps) : GuardSide(ps[j]) /\ ps[j].form = "meta" /\ ps[j].name = ps[i].name
  \* one metavariable per guarded import (the statement does not say what a
  \* metavariable shared by two imports means)
  /\ \A i, j \in 1..Len(ps) : (i # j /\ GuardSide(ps[i]) /\ GuardSide(ps[j]) /\ ps[i].form = "meta" /\ ps[j].form = "meta")
        => ps[i].name # ps[j].name
  \* a literal name that is also declared as a metavariable would be that metavariable
  /\ \A i, j \in 1..Len(ps) : (ps[i].form = "meta" /\ ps[j].form = "lit") => ps[i].name # ps[j].name
  /\ (Mode = "guards" => \A i \in 1..Len(ps) : GuardSide(ps[i]))

PatchImpLists == {ps \in UNION {[1..n -> PImps] : n \in 0..MaxPatchImps} : WellFormedPatch(ps)}

FNames(path) == {"", Base(path), Alt(path), ".", "_"}
\* file imports: at most one import per path (two imports of one path are outside the table)
FileImpSets ==
  LET paths == PatchPaths \cup OtherPaths
      choice == [paths -> {"absent"} \cup UNION {FNames(p) : p \in paths}]
  IN {c \in choice : \A p \in paths : c[p] = "absent" \/ c[p] \in FNames(p)}
\* as a sequence in a fixed order of paths
PathOrder == <<"fmt", "x/o", "x/p", "x/q", "x/v2", "y/p">>
FImpSeq(c) == LET idx == {i \in 1..Len(PathOrder) : PathOrder[i] \in DOMAIN c /\ c[PathOrder[i]] # "absent"}
                  s == SetToSortSeq(idx, LAMBDA a, b : a < b)
              IN [k \in 1..Len(s) |-> [name |-> c[PathOrder[s[k]]], path |-> PathOrder[s[k]]]]

UsableNames == UNION {{Base(p), Alt(p)} : p \in PatchPaths}

\* ---------------------------------------------------------------- P-layer --
FileImpFor(fimps, path) == {fimps[i] : i \in {k \in 1..Len(fimps) : fimps[k].path = path}}

\* "an unnamed import matches only an unnamed import, a literally named import
\*  only that exact name, and a name that is an identifier metavariable matches
\*  any name or none"
FormOK(pi, fi) == CASE pi.form = "unnamed" -> fi.name = ""
                    [] pi.form = "lit" -> fi.name = pi.name
                    [] pi.form = "meta" -> TRUE
PkgOK(sc) == sc.pkg = "" \/ sc.pkg = "a"
GuardsHold(sc) ==
  /\ PkgOK(sc)
  /\ \A i \in 1..Len(sc.pimps) : GuardSide(sc.pimps[i]) =>
        \E fi \in FileImpFor(sc.fimps, sc.pimps[i].path) : FormOK(sc.pimps[i], fi)

\* the name under which the file refers to a package it imports
LocalName(fi) == IF fi.name = "" THEN Base(fi.path) ELSE fi.name
\* the import the '-'/context line pi matched (files have one import per path)
Matched(sc, pi) == CHOOSE fi \in FileImpFor(sc.fimps, pi.path) : FormOK(pi, fi)
\* the name a '+' line is expected to produce
PlusName(sc, pi) ==
  CASE pi.form = "unnamed" -> ""
    [] pi.form = "lit" -> pi.name
    [] pi.form = "meta" ->
         LET g == CHOOSE j \in 1..Len(sc.pimps) : GuardSide(sc.pimps[j]) /\ sc.pimps[j].form = "meta" /\ sc.pimps[j].name = pi.name
         IN Matched(sc, sc.pimps[g]).name          \* the captured name ("" when it matched an unnamed import)
PlusPkgName(sc, pi) == LET n == PlusName(sc, pi) IN IF n = "" THEN (IF pi.form = "meta" THEN pi.name ELSE Base(pi.path)) ELSE n
Mentioned(sc) == {sc.pimps[i].path : i \in 1..Len(sc.pimps)}
StrictPlus(sc)  == {sc.pimps[i] : i \in {k \in 1..Len(sc.pimps) : sc.pimps[k].side = "plus"}}
StrictMinus(sc) == {sc.pimps[i] : i \in {k \in 1..Len(sc.pimps) : sc.pimps[k].side = "minus"}}
Ctx(sc)         == {sc.pimps[i] : i \in {k \in 1..Len(sc.pimps) : sc.pimps[k].side = "ctx"}}
\* names newly provided by '+' imports (not already imported that way by the input file)
NewPlusNames(sc) == {PlusPkgName(sc, pi) : pi \in {x \in StrictPlus(sc) : [name |-> PlusName(sc, x), path |-> x.path] \notin SeqToSet(sc.fimps)}}
AllPlusNames(sc) == {PlusPkgName(sc, pi) : pi \in StrictPlus(sc)}

\* out: set of [name, path] of the output file.  Returns the set of violated clauses.
C11_Violations(sc, out) ==
  LET inp == SeqToSet(sc.fimps) IN
  (IF \A fi \in inp : fi.path \notin Mentioned(sc) => fi \in out THEN {} ELSE {"UnmentionedKept"})
  \cup (IF \A fo \in out : fo.path \notin Mentioned(sc) => fo \in inp THEN {} ELSE {"NothingUnmentionedAdded"})
  \cup (IF \A pi \in StrictPlus(sc) : [name |-> PlusName(sc, pi), path |-> pi.path] \in out THEN {} ELSE {"PlusPresent"})
  \cup (IF \A pi \in StrictMinus(sc) :
            LET fi == Matched(sc, pi) IN
            \* re-added under the same name by a '+' line: nothing to say
            [name |-> fi.name, path |-> fi.path] \in {[name |-> PlusName(sc, x), path |-> x.path] : x \in StrictPlus(sc)}
            \/ ((LocalName(fi) \notin sc.uses \/ LocalName(fi) \in NewPlusNames(sc)) => fi \notin out)
        THEN {} ELSE {"MinusGoneWhenUnused"})
  \cup (IF \A pi \in StrictMinus(sc) \cup Ctx(sc) :
            LET fi == Matched(sc, pi) IN
            (LocalName(fi) \in sc.uses /\ LocalName(fi) \notin AllPlusNames(sc)) => fi \in out
        THEN {} ELSE {"MatchedKeptWhenUsed"})
  \* imports of mentioned paths: only the input's own and those the '+' lines dictate
  \cup (IF \A fo \in out : fo.path \in Mentioned(sc) =>
            fo \in inp \/ \E pi \in StrictPlus(sc) : fo = [name |-> PlusName(sc, pi), path |-> pi.path]
        THEN {} ELSE {"NothingInvented"})

\* ---------------------------------------------------------------- I-layer --
\* goast.FindImportSpec: the first import spec with that path (0 = none)
FindSpec(fimps, path) == LET I == {i \in 1..Len(fimps) : fimps[i].path = path} IN IF I = {} THEN 0 ELSE Min(I)

\* metavariable store: sequence of [var, val, unnamed]
Bound(d, v) == \E i \in 1..Len(d) : d[i].var = v
ValOf(d, v) == d[CHOOSE i \in 1..Len(d) : d[i].var = v]

\* ImportsMatcher.Match: folds ImportMatcher.Match over the '-'-side imports
\* (context and '-' lines, in patch order); result [ok, d, matched]
RECURSIVE IMatchFrom(_, _, _, _, _)
IMatchFrom(ps, k, fimps, d, matched) ==
  IF k > Len(ps) THEN [ok |-> TRUE, d |-> d, matched |-> matched]
  ELSE IF ~GuardSide(ps[k]) THEN IMatchFrom(ps, k + 1, fimps, d, matched)
  ELSE
    LET m == ps[k]
        i == FindSpec(fimps, m.path)
        fail == [ok |-> FALSE, d |-> d, matched |-> matched]
    IN IF i = 0 THEN fail
       ELSE LET fi == fimps[i] IN
       IF m.form = "unnamed"
       THEN \* patch import is unnamed: match only if the file import is unnamed, nothing recorded
            IF fi.name = "" THEN IMatchFrom(ps, k + 1, fimps, d, Append(matched, [path |-> m.path, pkg |-> Base(m.path), imp |-> ""]))
            ELSE fail
       ELSE IF fi.name = ""
       THEN IF m.form # "meta" THEN fail
            ELSE \* metavariable against an unnamed import: a fake identifier with the metavariable's own name
                 IF Bound(d, m.name) /\ ValOf(d, m.name).val # m.name THEN fail
                 ELSE IMatchFrom(ps, k + 1, fimps,
                                 IF Bound(d, m.name) THEN d ELSE Append(d, [var |-> m.name, val |-> m.name, unnamed |-> "1"]),
                                 Append(matched, [path |-> m.path, pkg |-> m.name, imp |-> ""]))
       ELSE \* both named
            IF m.form = "lit"
            THEN IF fi.name = m.name THEN IMatchFrom(ps, k + 1, fimps, d, Append(matched, [path |-> m.path, pkg |-> fi.name, imp |-> fi.name]))
                 ELSE fail
            ELSE IF Bound(d, m.name) /\ ValOf(d, m.name).val # fi.name THEN fail
                 ELSE IMatchFrom(ps, k + 1, fimps,
                                 IF Bound(d, m.name) THEN d ELSE Append(d, [var |-> m.name, val |-> fi.name, unnamed |-> "0"]),
                                 Append(matched, [path |-> m.path, pkg |-> fi.name, imp |-> fi.name]))

IMatch(sc) == IF ~(sc.pkg = "" \/ sc.pkg = "a") THEN [ok |-> FALSE, d |-> <<>>, matched |-> <<>>]
              ELSE IMatchFrom(sc.pimps, 1, sc.fimps, <<>>, <<>>)

\* ImportsReplacer.Replace: every import of the '+' side (context and '+' lines)
\* goes through astutil.AddNamedImport; result [cur, newNames]
RECURSIVE IAddFrom(_, _, _, _, _)
IAddFrom(ps, k, d, cur, newNames) ==
  IF k > Len(ps) THEN [cur |-> cur, newNames |-> newNames]
  ELSE IF ~PlusSide(ps[k]) THEN IAddFrom(ps, k + 1, d, cur, newNames)
  ELSE
    LET r == ps[k]
        unnamedMeta == r.form = "meta" /\ Bound(d, r.name) /\ ValOf(d, r.name).unnamed = "1"
        name == CASE r.form = "unnamed" -> ""
                  [] r.form = "lit" -> r.name
                  [] r.form = "meta" -> IF unnamedMeta THEN "" ELSE ValOf(d, r.name).val
        pkgName == CASE r.form = "unnamed" -> Base(r.path)
                     [] r.form = "lit" -> r.name
                     [] r.form = "meta" -> IF unnamedMeta THEN r.name ELSE name
    IN IF [name |-> name, path |-> r.path] \in SeqToSet(cur)
       THEN IAddFrom(ps, k + 1, d, cur, newNames)                     \* AddNamedImport: already imported that way
       ELSE IAddFrom(ps, k + 1, d, Append(cur, [name |-> name, path |-> r.path]), newNames \cup {pkgName})

\* ImportsReplacer.Cleanup: delete matched imports that were replaced or are no longer used
RECURSIVE ICleanupFrom(_, _, _, _, _)
ICleanupFrom(matched, k, cur, newNames, uses) ==
  IF k > Len(matched) THEN cur
  ELSE LET m == matched[k] IN
       IF m.pkg \in newNames \/ m.pkg \notin uses
       THEN ICleanupFrom(matched, k + 1, SelectSeq(cur, LAMBDA fi : ~(fi.name = m.imp /\ fi.path = m.path)), newNames, uses)
       ELSE ICleanupFrom(matched, k + 1, cur, newNames, uses)

\* the whole change on the import level: [changed, out]
IApply(sc) ==
  LET mr == IMatch(sc) IN
  IF ~mr.ok THEN [changed |-> FALSE, out |-> SeqToSet(sc.fimps)]
  ELSE LET ar == IAddFrom(sc.pimps, 1, mr.d, sc.fimps, {})
       IN [changed |-> TRUE, out |-> SeqToSet(ICleanupFrom(mr.matched, 1, ar.cur, ar.newNames, sc.uses))]

\* A '+' import that is exactly the import a '-' line matched (same name, same
\* path): the file already imports the package the way the patch asks for.
PlusEqualsMatched(sc) ==
  \E pi \in StrictPlus(sc), gi \in StrictMinus(sc) :
     gi.path = pi.path /\ PlusName(sc, pi) = Matched(sc, gi).name

\* -------------------------------------------------------------- design check --
VARIABLES sc, stage
vars == <<sc, stage>>

\* The universe is enumerated in two steps so that TLC's workers share the
\* work: the initial states fix the patch, one step adds the file.
Pkgs == IF Mode = "guards" THEN {"", "a", "b"} ELSE {""}
UseSets == IF Mode = "guards" THEN {UsableNames \cup {"o", "fmt"}} ELSE {v \cup {"o", "fmt"} : v \in SUBSET UsableNames}
Init == /\ stage = "patch"
        /\ sc \in {[pkg |-> pk, pimps |-> ps, fimps |-> <<>>, uses |-> {}] : pk \in Pkgs, ps \in PatchImpLists}
Next == /\ stage = "patch" /\ stage' = "file"
        /\ \E c \in FileImpSets, u \in UseSets : sc' = [sc EXCEPT !.fimps = FImpSeq(c), !.uses = u]
Spec == Init /\ [][Next]_vars
\* C10: the change applies iff every guard holds (the code pattern occurs)
DesignC10 == stage = "file" => (IApply(sc).changed <=> GuardsHold(sc))
\* C11: what the machine does to the imports is what the statement dictates
DesignC11 == (stage = "file" /\ GuardsHold(sc) /\ ~PlusEqualsMatched(sc)) => C11_Violations(sc, IApply(sc).out) = {}
\* no guard, no effect on the imports either
DesignUntouched == (stage = "file" /\ ~GuardsHold(sc)) => IApply(sc).out = SeqToSet(sc.fimps)
====
