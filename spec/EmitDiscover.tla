---- MODULE EmitDiscover ----
(* Writes the tree universe of Discover.tla with, per tree, every          *)
(* constrained argument; lib/prop_c15.py forms the argument lists.         *)
EXTENDS Discover, Json
CONSTANTS OutFile
VARIABLE emitted
TreeRec(t) == [top |-> SetToSeq(t.top),
               kids |-> [d \in DirNames |-> SetToSeq(t.kids[d])],
               args |-> SetToSeq({[path |-> a.path, abs |-> IF a.abs THEN "1" ELSE "0", dots |-> IF a.dots THEN "1" ELSE "0", via |-> a.via] :
                                    a \in {x \in ArgsOf(t) : Constrained(x)}})]
EmitInit == /\ emitted = ndJsonSerialize(OutFile, SetToSeq({TreeRec(t) : t \in Trees}))
            /\ tree = (CHOOSE t \in Trees : TRUE) /\ args = <<>> /\ cwdvia = "w"
EmitSpec == EmitInit /\ [][UNCHANGED <<emitted, tree, args, cwdvia>>]_<<emitted, tree, args, cwdvia>>
====
